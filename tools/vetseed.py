#!/usr/bin/env python3
"""
Vet a seeded change produced by a sub-agent and run the checks against it.
  tools/vetseed.py <dir with patch.diff demo.py notes.md> <seeded id> <property> [--keep]
Steps (all on scratch copies outside /repo and /verif, removed afterwards):
  1. patch applies to /repo HEAD; 2. suite still 490 passed / 4 failed; 3. demo exits 1 with the patch, 0 without;
  4. every quick check is run against the patched copy (then the owner's thorough tier if its quick tier was silent).
With --keep the change is copied to /verif/seeded/<id>/ with meta.json.
"""
import os, sys, json, shutil, subprocess, tempfile
sys.path.insert(0, os.path.dirname(os.path.abspath(__file__)))
import seedtest as S

VERIF = S.VERIF


def main():
    src, sid, prop = sys.argv[1], sys.argv[2], sys.argv[3]
    keep = "--keep" in sys.argv
    patch = open(os.path.join(src, "patch.diff")).read()
    demo = os.path.join(src, "demo.py")
    res = {"id": sid, "property": prop}
    clean = S.make_copy()
    dirty = S.make_copy()
    try:
        a = subprocess.run(["git", "apply", os.path.abspath(os.path.join(src, "patch.diff"))], cwd=dirty, capture_output=True, text=True)
        res["applies"] = a.returncode == 0
        if not res["applies"]:
            res["error"] = a.stderr[:300]
            print(json.dumps(res))
            return 1
        res["suite"] = S.run_suite(dirty)
        d1 = subprocess.run(["/venv/bin/python", demo, dirty], capture_output=True, text=True, timeout=600)
        d0 = subprocess.run(["/venv/bin/python", demo, clean], capture_output=True, text=True, timeout=600)
        res["demo_with_patch"] = d1.returncode
        res["demo_without_patch"] = d0.returncode
        res["demo_output"] = (d1.stdout + d1.stderr)[-400:]
    finally:
        shutil.rmtree(clean, ignore_errors=True)
        shutil.rmtree(dirty, ignore_errors=True)
    valid = res["suite"].startswith("4 failed, 490 passed") and res["demo_with_patch"] == 1 and res["demo_without_patch"] == 0
    res["valid"] = valid
    if valid:
        r = S.test_patch(sid, patch, S.ALL, "quick")
        res["quick_fired"] = r["fired"]
        res["quick_inconclusive"] = r["inconclusive"]
        res["lines"] = {k: v[:2] for k, v in r["lines"].items() if k in r["fired"]}
        if prop not in r["fired"]:
            r2 = S.test_patch(sid, patch, [prop], "thorough")
            res["thorough_fired"] = r2["fired"]
            res["lines_thorough"] = r2["lines"]
    print(json.dumps(res, indent=1))
    if keep and valid:
        dst = os.path.join(VERIF, "seeded", sid)
        os.makedirs(dst, exist_ok=True)
        for f in ("patch.diff", "demo.py", "notes.md"):
            if os.path.exists(os.path.join(src, f)):
                shutil.copy(os.path.join(src, f), os.path.join(dst, f))
        meta = {"id": sid, "breaks_property": prop, "source": "independent sub-agent (saw only the property text and a scratch worktree)",
                "needs_to_manifest": open(os.path.join(src, "notes.md")).read()[:1500] if os.path.exists(os.path.join(src, "notes.md")) else "",
                "verified": {"suite_with_patch": res["suite"], "demo_exit_with_patch": res["demo_with_patch"], "demo_exit_without_patch": res["demo_without_patch"],
                             "ran": "tools/vetseed.py: scratch copy of /repo HEAD (git archive), git apply patch.diff, pytest, demo.py, ./vcheck quick C01..C19 with VERIF_REPO=<copy>"},
                "checks_that_fired_quick": res.get("quick_fired"), "checks_that_fired_thorough": res.get("thorough_fired"),
                "repo_head_when_vetted": subprocess.run(["git", "-C", "/repo", "rev-parse", "--short", "HEAD"], capture_output=True, text=True).stdout.strip()}
        json.dump(meta, open(os.path.join(dst, "meta.json"), "w"), indent=1)
    return 0


if __name__ == "__main__":
    sys.exit(main())
