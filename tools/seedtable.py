#!/usr/bin/env python3
"""Markdown table of the kept seeded changes from seeded/*/meta.json (for DESIGN.md section 15)."""
import os, json, re
root = os.path.join(os.path.dirname(os.path.dirname(os.path.abspath(__file__))), "seeded")
print("| id | breaks | what was changed (first line of the author's notes) | first run: fired (quick) | final: fired (quick) | owner fires |")
print("|---|---|---|---|---|---|")
for sid in sorted(os.listdir(root)):
    mp = os.path.join(root, sid, "meta.json")
    if not os.path.exists(mp):
        continue
    m = json.load(open(mp))
    notes = m.get("needs_to_manifest", "")
    first = next((l.strip("# ").strip() for l in notes.splitlines() if l.strip()), "")[:110].replace("|", "/")
    fq = m.get("checks_that_fired_quick") or []
    ft = m.get("checks_that_fired_thorough")
    first_run = ",".join(fq) or "NONE"
    if ft:
        first_run += " (thorough: %s)" % ",".join(ft)
    fin = m.get("final", {}).get("checks_that_fired_quick")
    final = ",".join(fin) if fin else ("NONE" if fin == [] else "n/a")
    owner = "yes" if fin and m["breaks_property"] in fin else ("no" if fin is not None else "?")
    print("| %s | %s | %s | %s | %s | %s |" % (sid, m["breaks_property"], first, first_run, final, owner))
