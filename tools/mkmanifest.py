#!/usr/bin/env python3
"""Regenerates MANIFEST.json from the table below (kept in one place so it stays valid)."""
import json, os
HERE = os.path.dirname(os.path.dirname(os.path.abspath(__file__)))
props = [json.loads(l) for l in open(os.path.join(HERE, "properties.jsonl"))]
CLAIMED = {
 "C01": ("runtime monitoring: postcondition hook on Program.translate_statements + independent MC6809 datasheet decoder as reference-model oracle over an exhaustive form x boundary-value sweep",
         "Every (mnemonic, datasheet mode, register, indirect) cell x boundary values x every literal spelling x literal/EQU/label carriers is assembled by the real code and the emitted bytes are decoded by an independent decoder and compared with the form record; thorough adds every value of the 16-bit range for representative mnemonics. Exploration: held on the executions produced, not a proof.",
         "6 C01"),
 "C02": ("runtime monitoring: layout invariants I1-I6 evaluated at the translate_statements hook on generated programs",
         "Arithmetic invariants over listing addresses, symbol table, image and origin are evaluated on every accepted program (random programs, every operand form followed by a label, duplicate/undefined symbols, multiple ORG).", "6 C02"),
 "C03": ("runtime monitoring: decoded displacement vs listing addresses on distance-dialled programs",
         "Every short/long branch mnemonic and label,PCR forms at every distance around the 8/16-bit limits with interleaved unsized PCR statements; the decoded displacement must reach the label's listing address.", "6 C03"),
 "C12": ("runtime monitoring: generic well-formedness oracle (decoder + reserved-size) on ill-typed, mutated and random operand strings",
         "Any accepted instruction statement must decode as exactly one instruction of that mnemonic whose length equals the space reserved in the listing; ill-typed classes must be rejected.", "6 C12"),
 "C13": ("runtime monitoring: livelock detector (repeated loop state) + sys.monitoring step budget + outcome classifier + audit-hook file-effect log",
         "Unbounded termination restated as no-repeated-state and bounded interpreter steps; internal exception classes escaping Program.process or the CLI are violations; CLI diagnostics must exit non-zero and touch no file.", "6 C13"),
 "C06": ("runtime monitoring: shadow-list conservation check of CassetteFile writer->reader round trips + reference tape generator for foreign streams",
         "File lists of boundary lengths and marker-dense content are written and listed by the real code and compared with the shadow list; foreign well-formed tapes from an independent generator are listed by the tool.", "6 C06"),
 "C07": ("runtime monitoring: shadow-list conservation check of DiskFile writer->reader round trips (default and permuted fill orders) + reference filesystem writer for foreign images",
         "Stored file sequences at granule/sector boundary lengths are read back by the real reader and compared; foreign fsck-clean images with arbitrary chain orders are listed by the tool.", "6 C07"),
 "C08": ("runtime monitoring: postcondition hook on DiskFile.add_file running an independent Disk BASIC fsck after every addition",
         "Every image state reached by the workload - after every successful and after every refused addition - is checked against all structural clauses of the property by a reference fsck.", "6 C08"),
 "C14": ("runtime monitoring: postcondition hook on CassetteFile.add_file parsing every appended region with a strict checksum-verifying reference parser",
         "Every region appended by the real writer must parse as exactly one well-formed file equal to the argument.", "6 C06/C14"),
 "C15": ("runtime monitoring: history invariant at DiskFile.add_file (free-granule / slot accounting vs shadow free sets) over fill-to-exhaustion histories + audit-hook check of failing host saves",
         "Fit/no-fit, granules used and slots consumed are judged on every addition of histories that drive images to exhaustion; all 72 single-free-slot directory states are enumerated; failing CLI saves must leave the host file untouched.", "6 C15"),
 "C09": ("runtime monitoring: shadow-list history checker over save / re-open / append sequences on real host files (API and both CLIs), reference parsers as independent observers, sniffed-kind recorder",
         "After every operation of generated histories the host bytes are parsed by the reference parsers and by the tool and compared with a shadow list; M7/M8 assert 'earlier bytes/files untouched' at every add_file; includes re-opening on list/bytes/bytearray copies, additions that cannot be written, a cassette that carries a picture of a disk and a disk that holds a tape image.", "6 C09"),
 "C10": ("runtime monitoring: audit-hook file-effect log + content hashes over the exhaustive CLI configuration matrix, judged by a decision table; strace as second observer",
         "All 168 cells of the matrix (14 pre-existing target kinds, among them a cassette longer than a disk image whose data shows a one-file disk, and raw binaries of only $00 / $55 bytes) run in both tiers plus random invocation sequences; the target may change only when the decision table allows it.", "6 C10"),
 "C11": ("runtime monitoring: CLI outputs parsed by independent readers and compared with an in-process assembly of the same text",
         "BIN/CAS/DSK outputs of assembler.py for generated programs are compared with the image and name obtained from Program.process and the origin read from the listing (address of the first emitted byte; programs with several leading ORGs included); file_util --list is a third witness.", "6 C11"),
 "C16": ("runtime monitoring: conservation check of file sets across file_util conversions and conversion chains, reference parsers as oracle",
         "Source images from reference writers are converted through the real CLI; the produced image must list exactly the selected files unchanged; chains must return the original set.", "6 C16"),
 "C04": ("runtime monitoring: reference expression evaluator (generator AST) vs value decoded from the emitted bytes, across operand positions, operators and symbol kinds",
         "Every operand position x operator x term kind (literal, EQU before/after in every spelling, label before/after) is assembled and the decoded value compared with Python-integer arithmetic on the generator's AST; a rejected single-symbol statement is re-assembled with the constant written in place, a rejected label expression is judged from the layout.", "6 C04"),
 "C05": ("runtime monitoring: emitted bytes of data directives observed at the translate hook vs the literal meaning computed by the generator",
         "FCB/FDB lists, FCC strings with every delimiter and hostile content, RMB sizes and non-emitting directives are assembled and compared byte for byte.", "6 C05"),
 "C17": ("runtime monitoring: output fingerprints compared across warm / repeated / fresh-process / varied-hash-seed executions + deep module-state fingerprint (M10) around every assembly",
         "Each text is assembled seven times under different histories, orders, processes and hash seeds; module-level state and shared default objects are fingerprinted before/after each assembly.", "6 C17"),
 "C18": ("runtime monitoring: metamorphic relation oracles (origin shift, label bijection, whitespace, comments, mnemonic case, suffix) over generated programs, decoder-assisted for absolute references",
         "Pairs (P, T(P)) assembled by the real code must satisfy the relation the property states for T.", "6 C18"),
 "C19": ("runtime monitoring: split-file vs spliced-text equivalence on real temp directories (API and CLI), plus diagnostics for missing / cyclic includes under a step budget",
         "Programs cut at statement boundaries into 1-3 included files nested to depth 3 must assemble to the image, addresses and symbols of the spliced text.", "6 C19"),
}
LEVEL_NOTE = ("Trusted base: the harness's reference models under vlib/ref (self-tested), CPython's sys.addaudithook / sys.monitoring, and the "
              "generators' reach (form catalogue, boundary sets, seeds; the M11 reach monitor reports in every evidence file which repository lines and anchored functions the run executed). Holds only for the executions actually produced; see DESIGN.md sections 1 and 11.")
checks = []
for p in props:
    if p["id"] in CLAIMED:
        tech, text, ref = CLAIMED[p["id"]]
        checks.append({"property_id": p["id"], "quick_cmd": "./vcheck quick %s" % p["id"], "thorough_cmd": "./vcheck thorough %s" % p["id"],
                       "evidence_file": "evidence/%s.json" % p["id"], "replay_cmd_template": "./vcheck replay %s {path}" % p["id"],
                       "engine": "vlib", "level_claimed": {"category": "exploration", "text": text, "design_ref": "DESIGN.md section " + ref},
                       "level_note": LEVEL_NOTE, "technique": tech})
m = {"version": 1, "setup_cmd": "./setup.sh",
     "hooks": {"guard": "COCOASM_VERIF", "enable": "export COCOASM_VERIF=1 (set by vcheck in its workers; no in-repo hook exists - monitors are attached from /verif by wrapping public methods of the imported classes)",
               "baseline_off_cmd": "cd /repo && /venv/bin/python -m pytest -q -p no:cacheprovider --timeout=900", "source_commits": [], "add_only": True},
     "engines": [{"name": "vlib", "path": "vlib/", "serves_properties": sorted(CLAIMED), "kind_free_text": "runtime monitors (method wrappers, audit hook, sys.monitoring) + reference-model oracles + seeded workload generators, sharded over worker subprocesses"}],
     "checks": checks,
     "notes": "Known findings are listed in known_findings.json (mechanism-keyed); repairs of genuine defects are 'fix:' commits in /repo, recorded there as fixed entries.",
     "not_applicable": [{"property_id": p["id"], "reason": "check not built yet (build in progress; see DESIGN.md build order)"} for p in props if p["id"] not in CLAIMED]}
json.dump(m, open(os.path.join(HERE, "MANIFEST.json"), "w"), indent=1)
print("claimed", len(checks), "not_applicable", len(m["not_applicable"]))
