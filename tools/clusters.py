#!/usr/bin/env python3
"""dev aid: summarise a VERIF_CLUSTERS dump by (check, form, symptom) with trait breakdown"""
import json, sys, collections
d = json.load(open(sys.argv[1]))
only_new = "--new" in sys.argv
g = collections.OrderedDict()
for e in d:
    if only_new and e["matched"]:
        continue
    r = e["record"]
    k = (r["property"], r["check"], r["form"], r["symptom"])
    x = g.setdefault(k, {"n": 0, "traits": collections.defaultdict(collections.Counter), "w": e["witness"], "m": set()})
    x["n"] += e["count"]
    x["m"].add(e["matched"])
    for tk, tv in r["traits"].items():
        x["traits"][tk][str(tv)] += e["count"]
for k, x in g.items():
    print(k, x["n"], "matched=%s" % sorted(map(str, x["m"])))
    for tk, c in x["traits"].items():
        print("     %-8s %s" % (tk, dict(c)))
    w = x["w"] or {}
    print("     e.g.", w.get("show"), w.get("bytes", ""), (w.get("decoded") or "")[:120])
