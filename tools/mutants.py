#!/usr/bin/env python3
"""
Mechanical mutation run (complements the hand-written seeded changes): AST-located single-token mutations of the repository's
sources (comparison boundaries, integer constants +-1, and/or, +/-, negated conditions, dropped 'not').
  tools/mutants.py gen   <out.json> [--per-file N] [--seed S]     enumerate sites, sample, keep mutants that still pass the suite
  tools/mutants.py run   <out.json> <results.json>                run the relevant quick checks against every kept mutant
Everything happens on scratch copies outside /repo and /verif (removed afterwards).
"""
import ast, os, sys, json, random, subprocess, tempfile, shutil, concurrent.futures as cf
sys.path.insert(0, os.path.dirname(os.path.abspath(__file__)))
import seedtest as S

FILES = ["assembler.py", "file_util.py", "cocoasm/operands.py", "cocoasm/values.py", "cocoasm/statement.py", "cocoasm/program.py",
         "cocoasm/instruction.py", "cocoasm/virtualfiles/cassette.py", "cocoasm/virtualfiles/disk.py", "cocoasm/virtualfiles/virtual_file.py",
         "cocoasm/virtualfiles/source_file.py", "cocoasm/virtualfiles/binary.py", "cocoasm/virtualfiles/virtual_file_container.py",
         "cocoasm/virtualfiles/coco_file.py"]
ASM = ["C01", "C02", "C03", "C04", "C05", "C12", "C13", "C17", "C18", "C19", "C11"]
CHECKS = {"assembler.py": ["C10", "C11", "C13", "C19", "C15", "C09"], "file_util.py": ["C10", "C16", "C09", "C15", "C11"],
          "cocoasm/virtualfiles/cassette.py": ["C06", "C14", "C09", "C10", "C11", "C16"],
          "cocoasm/virtualfiles/disk.py": ["C07", "C08", "C15", "C09", "C10", "C11", "C16"],
          "cocoasm/virtualfiles/coco_file.py": ["C06", "C07", "C11", "C16", "C09"]}
for f in FILES:
    if f not in CHECKS:
        CHECKS[f] = ASM if not f.startswith("cocoasm/virtualfiles") else ["C09", "C10", "C11", "C16", "C15", "C06", "C07", "C13", "C19"]

CMP = {ast.Lt: "<=", ast.LtE: "<", ast.Gt: ">=", ast.GtE: ">", ast.Eq: "!=", ast.NotEq: "=="}
CMPTXT = {ast.Lt: "<", ast.LtE: "<=", ast.Gt: ">", ast.GtE: ">=", ast.Eq: "==", ast.NotEq: "!="}


def sites(path, src):
    tree = ast.parse(src)
    lines = src.splitlines(True)
    out = []

    def seg(node):
        return ast.get_source_segment(src, node)

    for node in ast.walk(tree):
        if isinstance(node, ast.Compare) and len(node.ops) == 1 and type(node.ops[0]) in CMP:
            left, right = node.left, node.comparators[0]
            if left.end_lineno == right.lineno:
                ln = left.end_lineno
                a, b = left.end_col_offset, right.col_offset
                mid = lines[ln - 1][a:b]
                old = CMPTXT[type(node.ops[0])]
                if mid.strip() == old:
                    out.append((ln, a, b, mid, mid.replace(old, CMP[type(node.ops[0])]), "cmp"))
        elif isinstance(node, ast.Constant) and isinstance(node.value, int) and not isinstance(node.value, bool) and node.lineno == node.end_lineno:
            txt = lines[node.lineno - 1][node.col_offset:node.end_col_offset]
            if txt.lower().startswith("0x"):
                for d in (1, -1):
                    if node.value + d >= 0:
                        out.append((node.lineno, node.col_offset, node.end_col_offset, txt, "0x%X" % (node.value + d), "const"))
            elif txt.isdigit():
                for d in (1, -1):
                    if node.value + d >= 0:
                        out.append((node.lineno, node.col_offset, node.end_col_offset, txt, str(node.value + d), "const"))
        elif isinstance(node, ast.BoolOp) and node.values[0].end_lineno == node.values[1].lineno:
            ln = node.values[0].end_lineno
            a, b = node.values[0].end_col_offset, node.values[1].col_offset
            mid = lines[ln - 1][a:b]
            if mid.strip() in ("and", "or"):
                out.append((ln, a, b, mid, mid.replace("and", "or") if "and" in mid else mid.replace("or", "and"), "boolop"))
        elif isinstance(node, ast.BinOp) and isinstance(node.op, (ast.Add, ast.Sub)) and node.left.end_lineno == node.right.lineno:
            ln = node.left.end_lineno
            a, b = node.left.end_col_offset, node.right.col_offset
            mid = lines[ln - 1][a:b]
            if mid.strip() in ("+", "-"):
                out.append((ln, a, b, mid, mid.replace("+", "-") if "+" in mid else mid.replace("-", "+"), "arith"))
        elif isinstance(node, ast.UnaryOp) and isinstance(node.op, ast.Not) and node.lineno == node.operand.lineno:
            a, b = node.col_offset, node.operand.col_offset
            mid = lines[node.lineno - 1][a:b]
            if mid.strip() == "not":
                out.append((node.lineno, a, b, mid, "", "not-dropped"))
        elif isinstance(node, ast.If) and node.test.lineno == node.test.end_lineno and not isinstance(node.test, ast.UnaryOp):
            t = seg(node.test)
            if t and len(t) < 80:
                out.append((node.test.lineno, node.test.col_offset, node.test.end_col_offset, t, "not (%s)" % t, "if-negated"))
    return out


def make_patch(repo, rel, site):
    ln, a, b, old, new, kind = site
    p = os.path.join(repo, rel)
    lines = open(p).read().splitlines(True)
    assert lines[ln - 1][a:b] == old, (rel, site)
    lines[ln - 1] = lines[ln - 1][:a] + new + lines[ln - 1][b:]
    open(p, "w").write("".join(lines))
    d = subprocess.run(["git", "diff"], cwd=repo, capture_output=True, text=True).stdout
    subprocess.run(["git", "checkout", "-q", "--", "."], cwd=repo)
    return d


def gen(out, per_file, seed):
    rnd = random.Random(seed)
    repo = S.make_copy()
    subprocess.run("git init -q && git add -A && git commit -qm base", shell=True, cwd=repo, capture_output=True)
    cands = []
    only = os.environ.get("MUT_FILES")
    for rel in (only.split(",") if only else FILES):
        src = open(os.path.join(repo, rel)).read()
        ss = sites(rel, src)
        # the opcode table is data, not logic: sample fewer from it
        k = per_file if rel != "cocoasm/instruction.py" else max(4, per_file // 3)
        rnd.shuffle(ss)
        for s in ss[:k]:
            cands.append((rel, s))
    print("candidate mutants:", len(cands))
    patches = []
    for rel, s in cands:
        try:
            patches.append({"file": rel, "line": s[0], "kind": s[5], "old": s[3].strip(), "new": s[4].strip(), "patch": make_patch(repo, rel, s)})
        except AssertionError:
            pass
    shutil.rmtree(repo)

    def survives(m):
        r = S.make_copy()
        try:
            pf = os.path.join(r, "_m.diff")
            open(pf, "w").write(m["patch"])
            if subprocess.run(["git", "apply", pf], cwd=r, capture_output=True).returncode != 0:
                return None
            os.remove(pf)
            cmp_ = subprocess.run(["/venv/bin/python", "-m", "compileall", "-q", m["file"]], cwd=r, capture_output=True)
            suite = S.run_suite(r)
            return suite
        finally:
            shutil.rmtree(r, ignore_errors=True)
    kept = []
    with cf.ThreadPoolExecutor(max_workers=12) as ex:
        for m, suite in zip(patches, ex.map(survives, patches)):
            m["suite"] = suite
            if suite and suite.startswith("4 failed, 490 passed"):
                kept.append(m)
    print("pass the suite unchanged:", len(kept), "of", len(patches))
    json.dump(kept, open(out, "w"), indent=1)


def run(inp, outp):
    ms = json.load(open(inp))
    res = []
    if os.path.exists(outp):
        res = json.load(open(outp))
    done = {(r["file"], r["line"], r["old"], r["new"]) for r in res}
    for i, m in enumerate(ms):
        if (m["file"], m["line"], m["old"], m["new"]) in done:
            continue
        r = S.test_patch("%s:%d" % (m["file"], m["line"]), m["patch"], CHECKS[m["file"]], "quick")
        rec = {k: m[k] for k in ("file", "line", "kind", "old", "new")}
        rec.update(fired=r.get("fired"), inconclusive=r.get("inconclusive"), error=r.get("error"))
        res.append(rec)
        print("%3d/%d %s:%d %s  %r -> %r   fired=%s%s" % (i + 1, len(ms), m["file"], m["line"], m["kind"], m["old"], m["new"], ",".join(r.get("fired") or []) or "NONE",
                                                         (" inconclusive=" + ",".join(r["inconclusive"])) if r.get("inconclusive") else ""), flush=True)
        json.dump(res, open(outp, "w"), indent=1)
    k = sum(1 for r in res if r["fired"])
    print("killed %d of %d suite-surviving mutants" % (k, len(res)))


if __name__ == "__main__":
    if sys.argv[1] == "gen":
        per = int(sys.argv[sys.argv.index("--per-file") + 1]) if "--per-file" in sys.argv else 12
        seed = int(sys.argv[sys.argv.index("--seed") + 1]) if "--seed" in sys.argv else 1
        gen(sys.argv[2], per, seed)
    else:
        run(sys.argv[2], sys.argv[3])
