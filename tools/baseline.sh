#!/bin/bash
# run the repository's pinned suite with the guard OFF and compare with BASELINE.json's stable_pass list
cd /repo && env -u COCOASM_VERIF /venv/bin/python -m pytest -q -p no:cacheprovider --timeout=900 --continue-on-collection-errors --junitxml=/tmp/_bl.xml >/tmp/_bl.out 2>&1
tail -1 /tmp/_bl.out
python3 - <<'PY'
import json, xml.etree.ElementTree as ET
b=json.load(open('/root/.vp/BASELINE.json'))
stable=set(b['stable_pass'])
t=ET.parse('/tmp/_bl.xml').getroot()
passed=set()
for tc in t.iter('testcase'):
    ok = not any(c.tag in('failure','error','skipped') for c in tc)
    name="%s::%s"%(tc.get('classname'),tc.get('name'))
    if ok: passed.add(name)
import itertools
sample=list(itertools.islice(stable,2))
# try to match formats
def norm(s): return s.replace('/','.').replace('.py::','.').replace('::','.')
sp=set(norm(x) for x in stable); pp=set(norm(x) for x in passed)
missing=sp-pp
print("stable_pass=%d passed_now=%d missing_from_stable=%d"%(len(sp),len(pp),len(missing)))
for m in sorted(missing)[:20]: print("  MISSING",m)
import sys; sys.exit(1 if missing else 0)
PY
rc=$?
rm -f /tmp/_bl.xml /tmp/_bl.out
exit $rc
