#!/usr/bin/env python3
"""
Self-test of the machinery against seeded defects.
  tools/seedtest.py [--checks C01,C02,...] [--tier quick] [--reverse-fixes] patch.diff ...
For every patch: a scratch copy of /repo's HEAD is made outside /repo and /verif, the patch applied, the repository's own suite
run there (a break that fails the suite is not a break 'the tests cannot settle'), then the selected checks run against the copy
(VERIF_REPO) with their output redirected (VERIF_OUT) so evidence/ is not touched.  Prints one line per patch:
  <patch> tests=<ok|FAIL> fired=[checks that exited 1] silent=[...] inconclusive=[...]
--reverse-fixes: instead of patch files, take every 'fix:' commit of /repo and use its reverse as the seeded defect.
"""
import os, sys, subprocess, tempfile, shutil, json, concurrent.futures as cf, argparse, re

VERIF = os.path.dirname(os.path.dirname(os.path.abspath(__file__)))
ALL = ["C%02d" % i for i in range(1, 20)]


def sh(cmd, **kw):
    return subprocess.run(cmd, shell=isinstance(cmd, str), capture_output=True, text=True, **kw)


def make_copy():
    d = tempfile.mkdtemp(prefix="seedrepo-")
    sh("git -C /repo archive HEAD | tar -x -C %s" % d)
    return d


def run_suite(repo):
    p = sh("cd %s && env -u COCOASM_VERIF timeout 300 /venv/bin/python -m pytest -q -p no:cacheprovider --timeout=60 2>&1 | tail -1" % repo)
    return p.stdout.strip()


def run_check(repo, out, check, tier, seed):
    env = dict(os.environ, VERIF_REPO=repo, VERIF_OUT=out, VERIF_JOBS=os.environ.get("SEED_JOBS", "4"), VERIF_SEED=str(seed))
    p = subprocess.run([os.path.join(VERIF, "vcheck"), tier, check], capture_output=True, text=True, env=env, cwd=VERIF)
    vio = [l for l in p.stdout.splitlines() if l.startswith("VIOLATION")]
    return check, p.returncode, vio, p.stdout[-600:]


def test_patch(name, patch_text, checks, tier, reverse=False, seed=0, keep=False):
    repo = make_copy()
    out = tempfile.mkdtemp(prefix="seedout-")
    try:
        pf = os.path.join(out, "p.diff")
        open(pf, "w").write(patch_text)
        a = sh(["git", "apply"] + (["-R"] if reverse else []) + [pf], cwd=repo)
        if a.returncode != 0:
            return {"patch": name, "error": "does not apply: " + a.stderr[:200]}
        suite = run_suite(repo)
        res = {"patch": name, "suite": suite, "fired": [], "silent": [], "inconclusive": [], "lines": {}}
        with cf.ThreadPoolExecutor(max_workers=int(os.environ.get("SEED_PAR", "4"))) as ex:
            for check, rc, vio, tail in ex.map(lambda c: run_check(repo, out, c, tier, seed), checks):
                if rc == 1:
                    res["fired"].append(check)
                    res["lines"][check] = [re.sub(r"replay=\S+", "", v)[:160] for v in vio[:3]]
                elif rc == 0:
                    res["silent"].append(check)
                else:
                    res["inconclusive"].append(check)
                    res["lines"][check] = [tail[-300:]]
        return res
    finally:
        shutil.rmtree(repo, ignore_errors=True)
        shutil.rmtree(out, ignore_errors=True)


def main():
    ap = argparse.ArgumentParser()
    ap.add_argument("--checks", default=",".join(ALL))
    ap.add_argument("--tier", default="quick")
    ap.add_argument("--reverse-fixes", action="store_true")
    ap.add_argument("--seed", type=int, default=0)
    ap.add_argument("--json", default=None)
    ap.add_argument("patches", nargs="*")
    a = ap.parse_args()
    checks = a.checks.split(",")
    items = []
    if a.reverse_fixes:
        log = sh("git -C /repo log --reverse --format='%h %s'").stdout.splitlines()
        for l in log:
            h, subj = l.split(" ", 1)
            if subj.startswith("fix:"):
                items.append(("revert:%s %s" % (h, subj[:70]), sh("git -C /repo show %s --format=" % h).stdout, True))
    for p in a.patches:
        items.append((p, open(p).read(), False))
    results = []
    kf = {}
    try:
        for e in json.load(open(os.path.join(VERIF, "known_findings.json")))["findings"]:
            if e.get("status") == "fixed":
                kf[e["commit"]] = sorted(set(re.findall(r"C\d\d", e["what"])))
    except Exception:
        pass
    for name, text, rev in items:
        use = checks
        if a.reverse_fixes and a.checks == ",".join(ALL):
            h = name.split(":")[1].split()[0]
            use = kf.get(h, checks)
        r = test_patch(name + " [checks %s]" % ",".join(use), text, use, a.tier, reverse=rev, seed=a.seed)
        results.append(r)
        if "error" in r:
            print("%s ERROR %s" % (name, r["error"]))
            continue
        ok = "ok" if r["suite"].startswith("4 failed, 490 passed") else "FAIL(%s)" % r["suite"]
        print("%s | suite=%s | fired=%s | inconclusive=%s" % (name, ok, ",".join(r["fired"]) or "NONE", ",".join(r["inconclusive"]) or "-"))
        for c in r["fired"][:4]:
            for l in r["lines"][c][:1]:
                print("      " + l)
        sys.stdout.flush()
    if a.json:
        json.dump(results, open(a.json, "w"), indent=1)


if __name__ == "__main__":
    main()
