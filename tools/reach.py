#!/usr/bin/env python3
"""
Union of the M11 reach observations of all checks: which executable lines of the repository no check's workload
ever executes.  Usage:  tools/reach.py [quick|thorough] [out.md]   (runs the checks with VERIF_OUT in a scratch
directory; the evidence files under /verif are not touched).
"""
import json
import os
import shutil
import subprocess
import sys
import tempfile

VERIF = os.path.dirname(os.path.dirname(os.path.abspath(__file__)))
sys.path.insert(0, VERIF)
from vlib import reach        # noqa: E402

REPO = os.environ.get("VERIF_REPO", "/repo")
tier = sys.argv[1] if len(sys.argv) > 1 else "quick"
outmd = sys.argv[2] if len(sys.argv) > 2 else os.path.join(VERIF, "reach", "unreached_%s.md" % tier)
tmp = tempfile.mkdtemp(prefix="reach-")
rdir = os.path.join(tmp, "reach")
env = dict(os.environ, VERIF_OUT=tmp, VERIF_REACH=rdir)
props = ["C%02d" % i for i in range(1, 20)]
per_prop = {}
for p in props:
    r = subprocess.run([os.path.join(VERIF, "vcheck"), tier, p], cwd=VERIF, env=env, capture_output=True, text=True)
    last = [l for l in r.stdout.splitlines() if l.startswith(("HELD", "VIOLATION", "INCONCLUSIVE"))][:1]
    print(p, r.returncode, last[0][:100] if last else "", flush=True)
    f = os.path.join(rdir, "%s-%s.json" % (p, tier))
    per_prop[p] = json.load(open(f)) if os.path.exists(f) else {}
union = {}
for p, d in per_prop.items():
    for rel, lns in d.items():
        union.setdefault(rel, set()).update(lns)
summary, funcs, unreached = reach.summarize(REPO, {k: sorted(v) for k, v in union.items()})
os.makedirs(os.path.dirname(outmd), exist_ok=True)
with open(outmd, "w") as f:
    f.write("# Repository lines no %s check executes (M11 reach monitor, union over C01..C19)\n\n" % tier)
    f.write("tree: %s\n\n" % subprocess.run(["git", "-C", REPO, "rev-parse", "--short", "HEAD"], capture_output=True, text=True).stdout.strip())
    f.write("total: %d of %d executable lines reached\n\n" % (summary["lines_reached"], summary["lines_executable"]))
    for rel, s in summary["by_file"].items():
        f.write("- %s: %s\n" % (rel, s))
    f.write("\n")
    for rel in reach.repo_files(REPO):
        src = open(os.path.join(REPO, rel), encoding="utf-8", errors="replace").read().splitlines()
        got = union.get(rel, set())
        for qual, first, lines in sorted(reach.executable(REPO, rel), key=lambda t: t[1]):
            miss = sorted(lines - got)
            if not miss:
                continue
            f.write("## %s %s (line %d): %d of %d lines never executed\n\n```\n" % (rel, qual, first, len(miss), len(lines)))
            for ln in miss:
                f.write("%5d  %s\n" % (ln, src[ln - 1] if ln - 1 < len(src) else ""))
            f.write("```\n\n")
with open(os.path.splitext(outmd)[0] + ".json", "w") as f:
    json.dump({"summary": summary, "functions_never_entered": unreached,
               "per_property_lines": {p: sum(len(v) for v in d.values()) for p, d in per_prop.items()}}, f, indent=1)
shutil.rmtree(tmp, ignore_errors=True)
print("total %d/%d; %d functions never entered; report %s" % (summary["lines_reached"], summary["lines_executable"], len(unreached), outmd))
