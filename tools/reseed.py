#!/usr/bin/env python3
"""Re-run every kept seeded change (seeded/<id>/patch.diff) against all quick checks and refresh meta.json ('final' fields)."""
import os, sys, json, subprocess
sys.path.insert(0, os.path.dirname(os.path.abspath(__file__)))
import seedtest as S
root = os.path.join(S.VERIF, "seeded")
only = sys.argv[1:]
for sid in sorted(os.listdir(root)):
    if only and sid not in only:
        continue
    d = os.path.join(root, sid)
    mp = os.path.join(d, "meta.json")
    if not os.path.exists(mp):
        continue
    meta = json.load(open(mp))
    # the owner, every check that fired on the first run, and (FULL=1) all 19
    use = sorted(set([meta["breaks_property"]] + (meta.get("checks_that_fired_quick") or []) + (meta.get("checks_that_fired_thorough") or [])))
    if os.environ.get("FULL"):
        use = S.ALL
    r = S.test_patch(sid, open(os.path.join(d, "patch.diff")).read(), use, "quick")
    meta.setdefault("final", {})
    meta["final_checks_run"] = use
    if "error" in r:
        meta["final"] = {"error": r["error"]}
    else:
        meta["final"] = {"suite_with_patch": r["suite"], "checks_that_fired_quick": r["fired"], "inconclusive": r["inconclusive"],
                         "first_violation_lines": {k: v[:1] for k, v in r["lines"].items() if k in r["fired"]},
                         "verif_commit": subprocess.run(["git", "-C", S.VERIF, "rev-parse", "--short", "HEAD"], capture_output=True, text=True).stdout.strip(),
                         "repo_head": subprocess.run(["git", "-C", "/repo", "rev-parse", "--short", "HEAD"], capture_output=True, text=True).stdout.strip()}
    json.dump(meta, open(mp, "w"), indent=1)
    print(sid, meta["breaks_property"], "owner-fired=%s" % (meta["breaks_property"] in meta["final"].get("checks_that_fired_quick", [])), meta["final"].get("checks_that_fired_quick"), meta["final"].get("error", ""), flush=True)
