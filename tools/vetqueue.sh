#!/bin/bash
# vet every sub-agent change under /tmp/wtout/<Cxx>/<A|B> that has not been vetted yet, sequentially
cd /verif
for d in /tmp/wtout/C*/[AB]; do
  [ -f "$d/patch.diff" ] && [ -f "$d/demo.py" ] || continue
  p=$(basename $(dirname $d)); x=$(basename $d); id="$p-$x"
  [ -f "/tmp/wtout/vet_$id.json" ] && continue
  SEED_PAR=4 SEED_JOBS=3 python3 tools/vetseed.py "$d" "$id" "$p" --keep > "/tmp/wtout/vet_$id.json" 2>&1
  python3 - "$id" <<'PY'
import json,sys
i=sys.argv[1]
try:
    d=json.load(open('/tmp/wtout/vet_%s.json'%i))
    print(i,'valid=%s'%d.get('valid'),'quick=%s'%d.get('quick_fired'),'thorough=%s'%d.get('thorough_fired'),'inconclusive=%s'%d.get('quick_inconclusive'), d.get('error','') , flush=True)
except Exception as e:
    print(i,'VET-ERROR',e, open('/tmp/wtout/vet_%s.json'%i).read()[-300:], flush=True)
PY
done
echo queue-done
