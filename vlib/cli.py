import os, sys
from vlib import core


def main(argv):
    if len(argv) < 2:
        print("usage: vcheck <quick|thorough> <Cxx> | vcheck replay <Cxx> <file>")
        return 64
    if argv[0] == "replay":
        return core.replay_main(argv[1], argv[2])
    tier, prop = argv[0], argv[1]
    tier = os.environ.get("VERIF_TIER_OVERRIDE", tier)
    seed = int(os.environ.get("VERIF_SEED", "0") or 0)
    return core.drive(prop, tier, seed)


if __name__ == "__main__":
    sys.exit(main(sys.argv[1:]))
