"""Helpers for the host-file / CLI properties (C09, C10, C11, C16): independent classification of file contents
(R4/R5), normalised file tuples, parsing of file_util.py --list output."""
import re
from vlib.ref import tape as RT, dskfs as RD


def kind_of(b):
    """('disk'|'cassette'|'raw'|'empty', files) decided by the reference parsers only"""
    b = bytes(b)
    if len(b) == 0:
        return "empty", []
    if len(b) == RD.IMAGE:
        files, errs = RD.fsck(b)
        if not errs:
            return "disk", [norm_disk(f) for f in files]
    try:
        files = RT.parse(b, require_leaders=False)
        if files:
            return "cassette", [norm_tape(f) for f in files]
    except RT.TapeError:
        pass
    return "raw", []


def norm_tape(f):
    return {"name": f["name"].decode("latin-1").upper().rstrip(" \0"), "type": f["ftype"], "dtype": f["dtype"], "load": f["load"], "exec": f["exec"],
            "data": f["data"]}


def norm_disk(f):
    return {"name": f["name"].decode("latin-1").upper().rstrip(" \0"), "ext": f["ext"].decode("latin-1").rstrip(), "type": f["ftype"], "dtype": f["ascii"],
            "load": f.get("load", 0), "exec": f.get("exec", 0), "data": f.get("data", b"")}


def norm_spec(s):
    return {"name": s["name"].upper()[:8].rstrip(" \0"), "type": s["type"], "dtype": s["dtype"], "load": s["load"], "exec": s["exec"],
            "data": bytes.fromhex(s["data"]) if isinstance(s["data"], str) else bytes(s["data"])}


def same_file(a, b, addresses=True):
    """field name of first difference between two normalised files, or None"""
    if a["name"][:8] != b["name"][:8]:
        return "name"
    if a["type"] != b["type"]:
        return "type"
    if a["dtype"] != b["dtype"]:
        return "data-type"
    if addresses and a["type"] == 2 and (a["load"], a["exec"]) != (b["load"], b["exec"]):
        return "addresses"
    if a["data"] != b["data"]:
        return "data"
    return None


def same_list(got, want, addresses=True):
    if len(got) != len(want):
        return "COUNT:%+d" % (len(got) - len(want))
    for a, b in zip(got, want):
        d = same_file(a, b, addresses)
        if d:
            return "FIELD:" + d
    return None


LIST_RE = re.compile(r"-- File #(\d+) --\nFilename:\s*(.*)\nExtension:\s*(.*)\nFile Type:\s*(.*)\nData Type:\s*(.*)\n(?:Gap Status:.*\n)?(?:Load Addr:\s*\$([0-9A-Fa-f]*)\nExec Addr:\s*\$([0-9A-Fa-f]*)\n)?Data Len:\s*(\d+) bytes")


def parse_list_output(out):
    """file_util.py --list -> list of dicts(name, ftype text, dtype text, load, exec, length)"""
    res = []
    for m in LIST_RE.finditer(out):
        res.append({"n": int(m.group(1)), "name": m.group(2).strip().upper().rstrip("\0 "), "ext": m.group(3).strip(), "ftype": m.group(4).strip(),
                    "dtype": m.group(5).strip(), "load": int(m.group(6), 16) if m.group(6) else None,
                    "exec": int(m.group(7), 16) if m.group(7) else None, "len": int(m.group(8))})
    return res


FTYPE_TEXT = {0: "BASIC", 1: "Data", 2: "Object", 3: "Text"}
