"""G2 (grammar-valid but ill-typed statements that must be rejected) and G3 (random / mutated operand strings)."""
import re
from vlib.ref import mc6809 as R
from vlib.forms import Form, traits_of, wrap, REGS

TOKENS = ["A", "B", "D", "X", "Y", "U", "S", "PC", "PCR", "CC", "DP", "Z", "W", "V", "L", "a", "b", "d", "x", "y", "u", "s", "pcr", "pc", "cc", "0", "1", "5", "15", "16", "17", "127",
          "128", "129", "255", "256", "32767", "32768", "65535", "65536", "70000", "-1", "-16", "-17", "-128", "-129",
          "$", "$5", "$05", "$005", "$0005", "$FF", "$100", "$FFFF", "$12345", "%", "%00000101", "%0000000000000101",
          "%101", "'A", "#", "<", ">", "[", "]", ",", ",", ",", "+", "++", "-", "--", "*", "/", "@", ".", "(", ")", "\"",
          "=", "!", "&", "?", ":", "^"]
TOKEN_RE = re.compile(r"PCR|PC|CC|DP|\$[0-9A-Fa-f]+|%[01]+|'.|\d+|[A-Za-z@]\w*|.")


def tokenize(s):
    return TOKEN_RE.findall(s)


def mutate(rnd, operand):
    t = tokenize(operand)
    k = rnd.randrange(6)
    if not t:
        return rnd.choice(TOKENS)
    i = rnd.randrange(len(t))
    if k == 0:
        del t[i]
    elif k == 1:
        t.insert(i, t[i])
    elif k == 2 and len(t) > 1:
        j = rnd.randrange(len(t))
        t[i], t[j] = t[j], t[i]
    elif k == 3:
        t[i] = rnd.choice(TOKENS)
    elif k == 4:
        t.insert(i, rnd.choice(TOKENS))
    else:
        t.append(rnd.choice(TOKENS))
    return "".join(t)


def random_operand(rnd):
    n = rnd.choice([1, 1, 2, 2, 3, 3, 4, 5, 6])
    return "".join(rnd.choice(TOKENS) for _ in range(n))


VALID_SEEDS = ["#5", "#$1234", "$10", "$1234", "<$10", ">$10", "[$1234]", ",X", "5,Y", "-5,U", "200,S", "$1234,X", "A,X", "D,Y",
               ",X+", ",Y++", ",-U", ",--S", "[,X]", "[5,Y]", "[D,U]", "[,S++]", "5,PCR", "L,PCR", "[L,PCR]", "L", "V", "#V",
               "V,X", "L+1", "V+1", "#L", "[L]", "A,B", "X,Y", "A,B,X", "CC,DP,PC", "W,X", "#W", "<V", ">V", "[V]", "W"]


def illtyped_forms():
    """G2: statements that the property says must be rejected (intent is unambiguous)."""
    for src, canon in R.all_mnemonics():
        m = R.MODES[canon]
        base = traits_of(canon)
        isbranch = "rel" in m
        if "idx" in m:
            for ind in (False, True):
                tr = dict(base, ind=ind)
                for bad in ("5,Z", "1,PC", "5,A", "5,B", "5,D", "5,XY", "5,CC", "5,DP", "5,W", "5,", "5,PCRX"):
                    yield Form(src, canon, "idx.bad-register", wrap(ind, bad), None, tr)
                for reg in REGS:
                    for bad in ("5,%s+" % reg, "5,%s++" % reg, "5,-%s" % reg, "5,--%s" % reg, "-5,%s+" % reg, "300,%s++" % reg):
                        yield Form(src, canon, "idx.offset-with-autoincdec", wrap(ind, bad), None, tr)
                    for bad in (",%s+++" % reg, ",---%s" % reg, ",-%s+" % reg, ",--%s++" % reg, ",+%s" % reg, ",%s-" % reg, ",%s--" % reg, ",++%s" % reg):
                        yield Form(src, canon, "idx.bad-autoincdec", wrap(ind, bad), None, tr)
                    for bad in ("A,%s+" % reg, "B,%s++" % reg, "D,-%s" % reg, "A,--%s" % reg):
                        yield Form(src, canon, "idx.acc-with-autoincdec", wrap(ind, bad), None, tr)
                for bad in ("A,PCR", "B,PCR", "D,PCR", ",PCR+", ",PCR++", ",-PCR", "5,PCR+"):
                    yield Form(src, canon, "idx.bad-pcr", wrap(ind, bad), None, tr)
                for bad in ("70000,X", "65536,Y", "-32769,U", "$12345,S", "65536,PCR", "-32769,PCR"):
                    yield Form(src, canon, "idx.offset-range", wrap(ind, bad), None, tr)
            for bad in ("[70000]", "[65536]", "[$12345]"):
                yield Form(src, canon, "extind.bad", bad, None, base)
        if "ext" in m:
            for bad in ("70000", "65536", "$12345", "<70000", ">65536"):
                yield Form(src, canon, "mem.range", bad, None, base)
        if "imm" in m:
            for bad in ("#70000", "#65536", "#$12345", "#-32769", "#-70000"):
                yield Form(src, canon, "imm.range", bad, None, base)
        if isbranch:
            for bad in ("#5", "#L", "[L]", "[$1234]", ",X", "5,X", "L,X", "L,PCR", "A,X", ",X+", "<L", ">L"):
                yield Form(src, canon, "rel.bad-operand", bad, None, base)
        if set(m) == {"inh"}:
            for bad in ("5", "#5", ",X", "L", "$1234", "[5]", "A", "A,B"):
                yield Form(src, canon, "inh.with-operand", bad, None, base)


def lowercase_forms():
    """statements written with lower-case register names: the tool may reject them, but if it accepts one it must mean the
    same register (C12: an unknown register is rejected rather than encoded as something else)"""
    for src, canon in (("LDA", "LDA"), ("LDX", "LDX"), ("LEAY", "LEAY"), ("STB", "STB"), ("CMPU", "CMPU")):
        base = traits_of(canon)
        for reg in REGS:
            lo = reg.lower()
            for ind in (False, True):
                tr = dict(base, ind=ind)
                for opnd, exp in ((",%s" % lo, {"kind": "off", "off": 0}), ("5,%s" % lo, {"kind": "off", "off": 5}), ("-100,%s" % lo, {"kind": "off", "off": -100}),
                                  ("1000,%s" % lo, {"kind": "off", "off": 1000}), (",%s++" % lo, {"kind": "inc2"}), (",--%s" % lo, {"kind": "dec2"}),
                                  ("A,%s" % lo, {"kind": "acc", "acc": "A"}), ("D,%s" % lo, {"kind": "acc", "acc": "D"})):
                    e = dict(exp, mode="idx", reg=reg, ind=ind)
                    yield Form(src, canon, "idx.lowercase-register", wrap(ind, opnd), e, tr)
                for opnd, exp in (("a,%s" % reg, {"kind": "acc", "acc": "A"}), ("b,%s" % lo, {"kind": "acc", "acc": "B"}), ("d,%s" % reg, {"kind": "acc", "acc": "D"})):
                    yield Form(src, canon, "idx.lowercase-register", wrap(ind, opnd), dict(exp, mode="idx", reg=reg, ind=ind), tr)
        for ind in (False, True):
            yield Form(src, canon, "idx.lowercase-register", wrap(ind, "$10,pcr"), {"mode": "idx", "kind": "pcr", "off": 16, "ind": ind}, dict(base, ind=ind))
            yield Form(src, canon, "idx.lowercase-register", wrap(ind, "300,Pcr"), {"mode": "idx", "kind": "pcr", "off": 300, "ind": ind}, dict(base, ind=ind))
    for mn in ("PSHS", "PULU"):
        for regs, want in (("a,b", ["A", "B"]), ("x,Y", ["X", "Y"]), ("cc,dp", ["CC", "DP"]), ("pc", ["PC"]), ("d", ["A", "B"])):
            yield Form(mn, mn, "reglist.lowercase-register", regs, {"mode": "reglist", "regs": sorted(want)}, {})
    for mn in ("TFR", "EXG"):
        for a, b in (("a", "b"), ("x", "Y"), ("D", "u"), ("cc", "dp")):
            yield Form(mn, mn, "regpair.lowercase-register", "%s,%s" % (a, b), {"mode": "regpair", "r0": a.upper(), "r1": b.upper()}, {})


LABEL_PRE = [" ORG $2000\n", "L NOP\n", " NOP\n", " NOP\n", "M NOP\n"]
LABEL_POST = ["ZZ9 NOP\n", "ZZA NOP\n"]


def labelexpr_cases():
    """label expressions in one- and two-byte operand fields (wave 10, C12-N: the range check and the rendering in the reserved
    width were skipped for address expressions).  L = $2000, M = $2003 are behind the statement, ZZ9 / ZZA right after it.
    known small value -> must carry it if accepted; value that cannot fit an 8-bit immediate -> must be rejected; the rest
    (negative results, < with a label) -> generic clause only"""
    small = (("M-L", 3), ("ZZA-ZZ9", 1), ("ZZA-L-0", None), ("M-L+0", None))
    for src in ("LDA", "LDB", "CMPA", "ADDB", "EORA", "SBCB", "LDX", "CMPY", "ADDD", "LDS"):
        canon = src
        tr = traits_of(canon)
        bits = 16 if tr["op16"] else 8
        out = []
        for e, v in small:
            if v is not None:
                out.append(("imm%d.label-expression" % bits, "#" + e, {"mode": "imm", "val": v, "bits": bits}, False))
                out.append(("mem.dir.label-expression", "<" + e, {"mode": "dir", "val": v}, False))
            else:
                out.append(("imm%d.label-expression" % bits, "#" + e, None, True))
        for e in ("L-M", "ZZ9-ZZA", "L-ZZA"):
            out.append(("imm%d.label-expression-negative" % bits, "#" + e, None, True))
        for e in ("L+1", "M-1", "ZZA+2", "ZZ9-1", "1+L"):
            if bits == 8:
                out.append(("imm8.label-expression-range", "#" + e, None, False))
            else:
                v = {"L+1": 0x2001, "M-1": 0x2002, "1+L": 0x2001}.get(e)
                out.append(("imm16.label-expression", "#" + e, {"mode": "imm", "val": v, "bits": 16} if v is not None else None, v is None))
            out.append(("mem.dir.label-expression-wide", "<" + e, None, True))
        for form, operand, expect, generic in out:
            c = {"id": "%s/%s/%s" % (form, src, operand), "lines": LABEL_PRE + [" %s %s\n" % (src, operand)] + LABEL_POST, "notail": True,
                 "target": len(LABEL_PRE), "mn": src, "canon": canon, "form": form, "expect": expect, "traits": tr, "operand": operand}
            if generic:
                c["g3"] = True
            yield c


PRELUDE = ["V EQU 5\n", "W EQU $1234\n", " ORG $2000\n", "L NOP\n"]


def case_of(src, canon, form, operand, expect, traits):
    return {"id": "%s/%s/%s" % (form, src, operand), "lines": PRELUDE + [" %s %s\n" % (src, operand)],
            "target": len(PRELUDE), "mn": src, "canon": canon, "form": form, "expect": expect, "traits": traits,
            "operand": operand}
