"""G7 - lists of CoCoFile specs (plain dicts; to_coco() builds the repository's CoCoFile)."""
NAMECH = "ABCDEFGHIJKLMNOPQRSTUVWXYZabcdefghijklmnopqrstuvwxyz0123456789"
PUNCT = "!#$%&()-@^_{}~<U"
ADDR = [0, 1, 0xFF, 0x100, 0x0E00, 0x3F00, 0x7FFF, 0x8000, 0xFFFE, 0xFFFF, 0x553C, 0x3C55, 0x5555]   # $55 $3C = the tape sync pair inside a header (wave 10, C09-N)
TAPE_LEN = [0, 1, 2, 254, 255, 256, 257, 509, 510, 511, 512, 764, 765, 766, 1020, 1275, 2549, 2550, 2551]
DISK_LEN = [0, 1, 2, 3, 5, 9, 10, 11, 12, 245, 246, 250, 251, 253, 255, 256, 257, 2293, 2294, 2295, 2296, 2299, 2300, 2301, 2303, 2304,
            2305, 4597, 4598, 4599, 4600, 4603, 4604, 4605, 4607, 4608, 4609, 6902, 6903, 6912, 9206, 9216]


def content(rnd, n, kind=None):
    kind = kind or rnd.choice(["random", "const", "count", "markers", "markers", "ff00"])
    if kind == "random":
        return bytes(rnd.getrandbits(8) for _ in range(n))
    if kind == "const":
        return bytes([rnd.choice([0x00, 0xFF, 0x55, 0x3C, 0x20])]) * n
    if kind == "count":
        return bytes(i & 255 for i in range(n))
    if kind == "ff00":
        pat = [0xFF, 0x00, 0x00, 0x12, 0x34, 0x00]
        return bytes(pat[i % len(pat)] for i in range(n))
    pat = [0x55, 0x3C, 0x00, 0x0F, 0x55, 0x3C, 0x01, 0xFF, 0x55, 0x3C, 0xFF, 0x00, 0xFF, 0x55, 0x55, 0x3C]
    off = rnd.randrange(len(pat))
    return bytes(pat[(i + off) % len(pat)] for i in range(n))


def gen_name(rnd, medium, maxlen=12):
    n = rnd.choice([1, 2, 3, 5, 7, 8, 8, 8, 9, 10, 12]) if medium == "disk" else rnd.choice([0, 1, 2, 5, 7, 8, 8, 9, 12])
    n = min(n, maxlen)
    alphabet = NAMECH if medium == "disk" else NAMECH + PUNCT
    name = "".join(rnd.choice(alphabet) for _ in range(n))
    if medium != "disk" and n and rnd.random() < 0.08:
        # a character of the upper half of the byte range: one byte in the 8-byte name field, not its UTF-8 form (wave 10, C14-N)
        i = rnd.randrange(n)
        name = name[:i] + rnd.choice("\xc9\x80\xa3") + name[i + 1:]
    return name


def gen_file(rnd, medium, length=None, unique=None, maxname=12):
    if length is None:
        length = rnd.choice(TAPE_LEN if medium == "tape" else DISK_LEN) if rnd.random() < 0.85 else rnd.randrange(0, 7000)
    kind = rnd.choice(["ml", "ml", "basic", "ascii", "data", "ml-ascii", "data-bin"]) if medium == "disk" else rnd.choice(["ml", "ml", "basic", "ascii", "data", "text"])
    t, dt = {"ml": (2, 0), "basic": (0, 0), "ascii": (0, 0xFF), "data": (1, 0xFF), "text": (3, 0xFF), "ml-ascii": (2, 0xFF), "data-bin": (1, 0)}[kind]
    if medium == "tape" and rnd.random() < 0.2:
        dt = rnd.choice([0, 0xFF])
    name = gen_name(rnd, medium, maxname)
    if unique is not None:
        name = ("%d%s" % (unique, name))[:maxname] if medium == "disk" else name
    ext = {"ml": "BIN", "basic": "BAS", "ascii": "BAS", "data": "DAT", "text": "TXT", "ml-ascii": "BIN", "data-bin": "DAT"}[kind][:rnd.choice([3, 3, 3, 2, 1, 0])] if medium == "disk" else ""
    spec = {"name": name, "ext": ext, "type": t, "dtype": dt, "gaps": rnd.choice([None, None, 0x00, 0xFF]) if medium == "tape" else None,
            "load": rnd.choice(ADDR + [rnd.randrange(65536)]),
            "exec": rnd.choice(ADDR + [rnd.randrange(65536)]), "data": content(rnd, length).hex(), "kind": kind}
    if medium == "tape" and rnd.random() < 0.08:
        # the sync pair made of the last header byte and the header's check sum: exec $xx55, load dialled so that the sum is $3C
        spec["exec"] = (rnd.randrange(256) << 8) | 0x55
        nm = name[:8].ljust(8).encode("latin-1", "replace")
        part = 0x00 + 0x0F + sum(nm) + t + dt + (spec["gaps"] or 0) + (spec["load"] >> 8) + (spec["exec"] >> 8) + 0x55
        spec["load"] = (spec["load"] & 0xFF00) | ((0x3C - part) & 0xFF)
    return spec


def to_coco(spec):
    from cocoasm.virtualfiles.coco_file import CoCoFile
    from cocoasm.values import NumericValue
    extra = {"gaps": NumericValue(spec["gaps"])} if spec.get("gaps") is not None else {}
    return CoCoFile(name=spec["name"], extension=spec["ext"], type=NumericValue(spec["type"]), data_type=NumericValue(spec["dtype"]), **extra,
                    load_addr=NumericValue(spec["load"]), exec_addr=NumericValue(spec["exec"]), data=list(bytes.fromhex(spec["data"])))


def brief(spec):
    return "%s.%s t%d/%02X %d bytes" % (spec["name"], spec["ext"], spec["type"], spec["dtype"], len(spec["data"]) // 2)
