"""
Core of the runtime-monitoring harness: tiers/seeds, sharded workers (subprocesses),
violation records with mechanism keys, known-findings matching, evidence, replay.

A property module (vlib/props/cNN.py) provides:
    PROPERTY   = "C01"
    RULE       = text for evidence.coverage.rule
    ASSUMPTIONS= list of strings
    def gen_cases(tier, seed) -> iterable of case dicts {"id": str, ...}   (deterministic)
    def setup(ctx)                       (install monitors; once per worker)
    def run_case(case, ctx) -> None      (uses ctx.* to report)
    def gate(stats) -> list of reasons the run is inconclusive (deciding monitor not reached)
"""
import os, sys, json, time, hashlib, fnmatch, subprocess, signal, collections, importlib, traceback, re, random

VERIF = os.path.dirname(os.path.dirname(os.path.abspath(__file__)))
OUT = os.environ.get("VERIF_OUT") or VERIF        # where evidence/ and replays/ are written (self-tests redirect it)
REPO = os.environ.get("VERIF_REPO", "/repo")
PY = "/venv/bin/python" if os.path.exists("/venv/bin/python") else sys.executable


def rng(*parts):
    h = hashlib.sha256(("|".join(str(p) for p in parts)).encode()).digest()
    return random.Random(int.from_bytes(h[:8], "big"))


class Hung(BaseException):
    pass


class Ctx(object):
    """Per-worker collector. Everything a case reports goes through here."""
    MAX_WITNESS = 3

    def __init__(self, prop, tier, seed):
        self.prop = prop
        self.tier = tier
        self.seed = seed
        self.evaluations = 0
        self.outcomes = collections.Counter()
        self.monitors = collections.Counter()      # monitor name -> evaluations
        self.cells = collections.Counter()         # coverage cells (form classes etc.)
        self.nontrivial = set()                    # hashes of distinct nontrivial cases
        self.violations = {}                       # key -> {"count", "record", "witnesses"}
        self.samples = []
        self.extra = {}
        self.case = None
        self.notes = collections.Counter()

    # -- reporting API used by property modules
    def outcome(self, name, n=1):
        self.outcomes[name] += n

    def mon(self, name, n=1):
        self.monitors[name] += n

    def cell(self, name, n=1):
        self.cells[name] += n

    def nontriv(self, key):
        self.nontrivial.add(hashlib.blake2b(repr(key).encode(), digest_size=8).digest())

    def sample(self, obj, limit=6):
        if len(self.samples) < limit:
            self.samples.append(obj)

    def violation(self, check, form, symptom, witness, traits=None, prop=None):
        traits = traits or {}
        prop = prop or self.prop
        key = json.dumps([prop, check, form, sorted(traits.items()), symptom])
        v = self.violations.get(key)
        if v is None:
            v = self.violations[key] = {"count": 0, "record": {"property": prop, "check": check, "form": form,
                                                               "traits": traits, "symptom": symptom}, "witnesses": []}
        v["count"] += 1
        if len(v["witnesses"]) < self.MAX_WITNESS:
            w = dict(witness)
            if self.case is not None:
                w.setdefault("case", self.case)
            v["witnesses"].append(w)

    def dump(self):
        return {"evaluations": self.evaluations, "outcomes": dict(self.outcomes), "monitors": dict(self.monitors),
                "cells": dict(self.cells), "nontrivial": [x.hex() for x in self.nontrivial],
                "violations": self.violations, "samples": self.samples, "extra": self.extra,
                "notes": dict(self.notes)}


def load_prop(prop):
    return importlib.import_module("vlib.props." + prop.lower())


def _alarm(signum, frame):
    raise Hung()


def worker_main(argv):
    prop, tier, seed, shard, nshards, out = argv[0], argv[1], int(argv[2]), int(argv[3]), int(argv[4]), argv[5]
    sys.path.insert(0, REPO)
    from vlib import reach
    reach.start(REPO)
    mod = load_prop(prop)
    ctx = Ctx(prop, tier, seed)
    ctx.shard = shard
    mod.setup(ctx)
    per_case = getattr(mod, "CASE_TIMEOUT", 60)
    signal.signal(signal.SIGALRM, _alarm)
    t0 = time.time()
    if getattr(mod, "SHARDED_GEN", False):
        stream = ((shard, c) for c in mod.gen_cases(tier, seed, shard, nshards))
    else:
        stream = ((i % nshards, c) for i, c in enumerate(mod.gen_cases(tier, seed)))
    for which, case in stream:
        if which != shard:
            continue
        ctx.case = case
        ctx.evaluations += 1
        signal.alarm(per_case)
        try:
            mod.run_case(case, ctx)
        except Hung:
            ctx.outcome("hung-unknown")
            ctx.extra.setdefault("hung", []).append(case)
        except BaseException as e:        # harness bug or repo escaping in an unmonitored place: never a silent pass
            signal.alarm(0)
            ctx.outcome("harness-error")
            ctx.extra.setdefault("harness_errors", [])
            if len(ctx.extra["harness_errors"]) < 5:
                ctx.extra["harness_errors"].append({"case": case, "error": traceback.format_exc()[-1500:]})
        finally:
            signal.alarm(0)
    if hasattr(mod, "teardown"):
        mod.teardown(ctx)
    ctx.extra["worker_wall_s"] = time.time() - t0
    d = ctx.dump()
    d["reach"] = reach.dump()
    with open(out, "w") as f:
        json.dump(d, f)


# ----------------------------------------------------------------------------------- findings

def load_findings():
    p = os.path.join(VERIF, "known_findings.json")
    if not os.path.exists(p):
        return []
    return json.load(open(p))["findings"]


def finding_matches(entry, rec):
    if entry.get("status") != "open":
        return False
    if entry["property"] != rec["property"]:
        return False
    m = entry["match"]
    if "check" in m and not fnmatch.fnmatchcase(rec["check"], m["check"]):
        return False
    if "form" in m and not fnmatch.fnmatchcase(rec["form"], m["form"]):
        return False
    if "symptom" in m and not fnmatch.fnmatchcase(rec["symptom"], m["symptom"]):
        return False
    for k, v in m.get("traits", {}).items():
        got = rec["traits"].get(k)
        if isinstance(v, list):
            if got not in v:
                return False
        elif got != v:
            return False
    return True


# ----------------------------------------------------------------------------------- driver

def tree_info():
    info = {}
    try:
        info["head"] = subprocess.run(["git", "-C", REPO, "rev-parse", "HEAD"], capture_output=True, text=True).stdout.strip()
        st = subprocess.run(["git", "-C", REPO, "status", "--porcelain"], capture_output=True, text=True).stdout
        info["dirty"] = bool(st.strip())
        df = subprocess.run(["git", "-C", REPO, "diff"], capture_output=True).stdout
        info["diff_sha256"] = hashlib.sha256(df).hexdigest()[:16]
    except Exception as e:
        info["error"] = str(e)
    return info


def safe_name(s):
    return re.sub(r"[^A-Za-z0-9_.-]+", "_", s)[:120]


def drive(prop, tier, seed, jobs=None, replay=None):
    t0 = time.time()
    mod = load_prop(prop)
    # the trusted base is re-validated at the start of every check; a failure says nothing about the repository
    try:
        from vlib.ref import mc6809, tape, dskfs
        mc6809.selftest(n=3000)
        tape.selftest()
        dskfs.selftest()
    except Exception as e:
        print("INCONCLUSIVE property=%s reason=reference-model self-test failed: %r" % (prop, e))
        return 2
    if jobs is None:
        jobs = int(os.environ.get("VERIF_JOBS", "0")) or (getattr(mod, "JOBS", {}).get(tier) or (8 if tier == "quick" else 16))
    work = os.path.join(OUT, "work", "%s-%s-%d" % (prop, tier, os.getpid()))
    os.makedirs(work, exist_ok=True)
    env = dict(os.environ)
    env.update({"PYTHONPATH": VERIF, "PYTHONDONTWRITEBYTECODE": "1",
                "PYTHONHASHSEED": env.get("PYTHONHASHSEED", "0"), "COCOASM_VERIF": "1", "VERIF_REPO": REPO,
                "VERIF_WORK": work})
    procs = []
    for s in range(jobs):
        out = os.path.join(work, "w%d.json" % s)
        p = subprocess.Popen([PY, "-m", "vlib.core", "worker", prop, tier, str(seed), str(s), str(jobs), out],
                             cwd=VERIF, env=env, stdout=subprocess.PIPE, stderr=subprocess.STDOUT)
        procs.append((p, out))
    limit = getattr(mod, "WORKER_TIMEOUT", {}).get(tier, 900 if tier == "quick" else 3600)
    merged = Ctx(prop, tier, seed)
    reached = {}
    inconclusive = []
    deadline = time.time() + limit
    for p, out in procs:
        try:
            so, _ = p.communicate(timeout=max(1, deadline - time.time()))
        except subprocess.TimeoutExpired:
            p.kill()
            so, _ = p.communicate()
            inconclusive.append("worker wall-clock watchdog fired (%ds)" % limit)
            continue
        if p.returncode != 0 or not os.path.exists(out):
            inconclusive.append("worker died rc=%s: %s" % (p.returncode, (so or b"").decode(errors="replace")[-600:]))
            continue
        d = json.load(open(out))
        merged.evaluations += d["evaluations"]
        merged.outcomes.update(d["outcomes"])
        merged.monitors.update(d["monitors"])
        merged.cells.update(d["cells"])
        merged.notes.update(d["notes"])
        merged.nontrivial.update(d["nontrivial"])
        for k, v in d["violations"].items():
            m = merged.violations.get(k)
            if m is None:
                merged.violations[k] = v
            else:
                m["count"] += v["count"]
                m["witnesses"] = (m["witnesses"] + v["witnesses"])[:Ctx.MAX_WITNESS]
        for rel, lns in d.get("reach", {}).items():
            reached.setdefault(rel, set()).update(lns)
        for s_ in d["samples"]:
            if len(merged.samples) < 8:
                merged.samples.append(s_)
        for k, v in d["extra"].items():
            if isinstance(v, list):
                merged.extra.setdefault(k, []).extend(v)
            elif isinstance(v, (int, float)):
                merged.extra[k] = max(merged.extra.get(k, 0), v) if k.endswith("_max") or k == "worker_wall_s" else merged.extra.get(k, 0) + v
            elif isinstance(v, dict):
                dd = merged.extra.setdefault(k, {})
                for kk, vv in v.items():
                    if isinstance(vv, (int, float)):
                        dd[kk] = dd.get(kk, 0) + vv
                    else:
                        dd.setdefault(kk, vv)
    try:
        import shutil
        shutil.rmtree(work, ignore_errors=True)
        wd = os.path.join(OUT, "work")
        if os.path.isdir(wd) and not os.listdir(wd):
            os.rmdir(wd)
    except Exception:
        pass

    from vlib import reach
    reach_summary, reach_funcs, reach_unreached = reach.summarize(REPO, reached)
    stats = {"evaluations": merged.evaluations, "outcomes": dict(merged.outcomes), "monitors": dict(merged.monitors),
             "cells": dict(merged.cells), "distinct_nontrivial": len(merged.nontrivial), "extra": merged.extra,
             "tier": tier, "reach_funcs": reach_funcs}
    if not replay:
        # M11: the mechanism the property is anchored in must have been executed by this run's workload.  Only a run that entered
        # NONE of the anchored functions that still exist is inconclusive: a refactoring may stop calling one of them (or leave it
        # behind as dead code) without the property ceasing to be decidable; the ones not entered are listed in the evidence.
        anchors_here = [(rel, q) for rel, q in getattr(mod, "ANCHOR_FUNCS", reach.ANCHOR_FUNCS.get(prop, ())) if reach.exists(reach_funcs, rel, q)]
        if anchors_here and not any(reach.entered(reach_funcs, rel, q) for rel, q in anchors_here):
            inconclusive.append("none of the anchored functions was executed by this run: %s" % ", ".join("%s:%s" % a for a in anchors_here[:4]))
    if merged.outcomes.get("harness-error"):
        inconclusive.append("harness errors: %s" % json.dumps(merged.extra.get("harness_errors", [])[:2])[:1500])
    if merged.outcomes.get("hung-unknown"):
        inconclusive.append("%d case(s) hit the per-case wall-clock watchdog" % merged.outcomes["hung-unknown"])
    if not replay:
        inconclusive.extend(mod.gate(stats))

    # classify violations against the known-findings file
    findings = load_findings()
    hit = collections.OrderedDict()
    new = []
    other_props = collections.Counter()
    for key, v in sorted(merged.violations.items()):
        rec = v["record"]
        if rec["property"] != prop:
            other_props[rec["property"]] += v["count"]      # judged by that property's own check
            continue
        ent = next((e for e in findings if finding_matches(e, rec)), None)
        if ent is not None:
            h = hit.setdefault(ent["id"], {"entry": ent, "count": 0, "example": None, "keys": 0})
            h["count"] += v["count"]
            h["keys"] += 1
            if h["example"] is None and v["witnesses"]:
                h["example"] = v["witnesses"][0]
        else:
            new.append((key, v))
    rdir = os.path.join(OUT, "replays", prop)
    os.makedirs(rdir, exist_ok=True)
    if not replay:
        for fn in os.listdir(rdir):
            if fn.endswith(".json"):
                os.remove(os.path.join(rdir, fn))
    lines = []
    for hid, h in hit.items():
        ex = h["example"] or {}
        exs = ex.get("show") or ex.get("source") or ""
        lines.append("KNOWN-FINDING: property=%s %s %s (%d cases this run%s)" % (
            h["entry"]["property"], hid, h["entry"]["what"], h["count"], (", e.g. " + str(exs)[:100]) if exs else ""))
    vio_lines = []
    by_prop = collections.Counter()
    for key, v in new:
        rec = v["record"]
        path = os.path.join("replays", rec["property"], safe_name("%s__%s__%s__%s" % (rec["check"], rec["form"], rec["symptom"], hashlib.sha1(key.encode()).hexdigest()[:8])) + ".json")
        os.makedirs(os.path.join(OUT, os.path.dirname(path)), exist_ok=True)
        with open(os.path.join(OUT, path), "w") as f:
            json.dump({"record": rec, "count": v["count"], "witnesses": v["witnesses"], "seed": seed, "tier": tier,
                       "tree": tree_info()}, f, indent=1, default=str)
        by_prop[rec["property"]] += 1
        if len(vio_lines) < 25:
            vio_lines.append("VIOLATION property=%s replay=%s  # %s/%s %s x%d" % (
                rec["property"], path, rec["check"], rec["form"], rec["symptom"], v["count"]))
    if os.environ.get("VERIF_CLUSTERS"):
        with open(os.environ["VERIF_CLUSTERS"], "w") as f:
            json.dump([{"record": v["record"], "count": v["count"], "witness": v["witnesses"][0] if v["witnesses"] else None,
                        "matched": next((e["id"] for e in findings if finding_matches(e, v["record"])), None)}
                       for k, v in sorted(merged.violations.items())], f, indent=1, default=str)
    verdict = "violated" if new else ("inconclusive" if inconclusive else "held")

    # evidence
    samples = merged.samples or [{"note": "no sample recorded"}]
    ev = {"property_id": prop, "tier": tier, "seed": seed, "level": "exploration",
          "coverage": {"evaluations": merged.evaluations, "distinct_nontrivial": len(merged.nontrivial),
                       "rule": mod.RULE, "samples": samples,
                       "monitors": dict(merged.monitors), "outcomes": dict(merged.outcomes),
                       "cells_covered": len(merged.cells),
                       "cells": dict(sorted(merged.cells.items())[:400]),
                       "exhaustive": False},
          "assumptions": list(getattr(mod, "ASSUMPTIONS", [])),
          "wall_s": round(time.time() - t0, 2),
          "violations": sum(v["count"] for _, v in new),
          "verdict": verdict,
          "inconclusive_reasons": inconclusive,
          "known_findings_hit": {hid: {"cases": h["count"], "mechanism_keys": h["keys"]} for hid, h in hit.items()},
          "stale_findings": [e["id"] for e in findings if e.get("status") == "open" and e["property"] == prop
                             and e["id"] not in hit and tier in e.get("expected_in", ["quick", "thorough"])],
          "records_for_other_properties_not_judged_here": dict(other_props),
          "new_violation_keys": [json.loads(k) for k, _ in new][:50],
          "tree": tree_info(), "jobs": jobs, "notes": dict(merged.notes),
          "extra": {k: (v if not isinstance(v, list) else v[:5]) for k, v in merged.extra.items() if not k.startswith("_")}}
    ev["coverage"]["repo_reach"] = reach_summary
    ev["coverage"]["repo_functions_entered"] = sum(1 for per in reach_funcs.values() for k, (h, _) in per.items()
                                                   if h and not k.startswith("<module>"))
    anchor_files = set()
    try:
        for l in open(os.path.join(VERIF, "properties.jsonl")):
            pd = json.loads(l)
            if pd["id"] == prop:
                anchor_files = set(pd["anchors"]["files"])
    except Exception:
        pass
    anchors_ = getattr(mod, "ANCHOR_FUNCS", reach.ANCHOR_FUNCS.get(prop, ()))
    ev["coverage"]["anchor_functions_entered"] = ["%s:%s" % (rel, q) for rel, q in anchors_ if reach.entered(reach_funcs, rel, q)]
    ev["coverage"]["anchor_functions_present_but_not_entered"] = ["%s:%s" % (rel, q) for rel, q in anchors_ if reach.exists(reach_funcs, rel, q) and not reach.entered(reach_funcs, rel, q)]
    ev["coverage"]["anchor_functions_no_longer_present"] = ["%s:%s" % (rel, q) for rel, q in anchors_ if not reach.exists(reach_funcs, rel, q)]
    ev["coverage"]["anchor_files"] = {rel: reach_summary["by_file"].get(rel) for rel in sorted(anchor_files)}
    ev["coverage"]["functions_never_entered_in_anchor_files"] = [u for u in reach_unreached
                                                                  if u.split(":")[0] in anchor_files]
    if os.environ.get("VERIF_REACH") and not replay:
        os.makedirs(os.environ["VERIF_REACH"], exist_ok=True)
        with open(os.path.join(os.environ["VERIF_REACH"], "%s-%s.json" % (prop, tier)), "w") as f:
            json.dump({rel: sorted(v) for rel, v in reached.items()}, f)
    if hasattr(mod, "evidence_extra"):
        ev["coverage"].update(mod.evidence_extra(stats))
    if not replay:
        os.makedirs(os.path.join(OUT, "evidence"), exist_ok=True)
        with open(os.path.join(OUT, "evidence", prop + ".json"), "w") as f:
            json.dump(ev, f, indent=1, default=str)
    print("%s %s seed=%d: %d evaluations, %d distinct non-trivial, outcomes=%s, monitors=%s, wall=%.1fs" % (
        prop, tier, seed, merged.evaluations, len(merged.nontrivial), dict(merged.outcomes), dict(merged.monitors), time.time() - t0))
    for l in lines:
        print(l)
    for l in vio_lines:
        print(l)
    if new:
        return 1
    if inconclusive:
        for r in inconclusive:
            print("INCONCLUSIVE property=%s reason=%s" % (prop, r))
        return 2
    print("HELD property=%s on everything explored" % prop)
    return 0


def replay_main(prop, path):
    """Re-run the case(s) stored in a replay file in this process with all monitors on."""
    sys.path.insert(0, REPO)
    mod = load_prop(prop)
    d = json.load(open(path))
    ctx = Ctx(prop, "replay", d.get("seed", 0))
    ctx.shard = 0
    mod.setup(ctx)
    n = 0
    for w in d["witnesses"]:
        case = w.get("case")
        if case is None:
            continue
        ctx.case = case
        ctx.evaluations += 1
        mod.run_case(case, ctx)
        n += 1
    findings = load_findings()
    rc = 0
    for key, v in ctx.violations.items():
        rec = v["record"]
        ent = next((e for e in findings if finding_matches(e, rec)), None)
        print(json.dumps({"record": rec, "count": v["count"], "witness": v["witnesses"][0]}, default=str)[:3000])
        if ent:
            print("KNOWN-FINDING: property=%s %s %s" % (rec["property"], ent["id"], ent["what"]))
        else:
            print("VIOLATION property=%s replay=%s" % (rec["property"], path))
            rc = 1
    print("replayed %d case(s); outcomes=%s" % (n, dict(ctx.outcomes)))
    return rc


if __name__ == "__main__":
    if sys.argv[1] == "worker":
        worker_main(sys.argv[2:])
    else:
        raise SystemExit("usage: python -m vlib.core worker ...")
