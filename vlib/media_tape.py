"""Shared workload for C06 (cassette round trip) and C14 (every cassette image written is well formed)."""
import os
from vlib import mediamon, files as G
from vlib.ref import tape as RT
from vlib.core import rng

SHARDED_GEN = False


def setup(ctx):
    mediamon.install()
    mediamon.bind(ctx)


def gen_cases(tier, seed):
    thorough = tier == "thorough"
    n_own = 30000 if thorough else 1200
    for k in range(n_own):
        r = rng(seed, "tape", "own", k)
        nf = r.choice([0, 1, 1, 2, 2, 3, 4, 6])
        specs = [G.gen_file(r, "tape") for _ in range(nf)]
        for j in range(1, len(specs)):
            if r.random() < 0.25:
                specs[j]["name"] = specs[j - 1]["name"]            # the same name more than once on one tape
        yield {"id": "own/%d" % k, "kind": "own", "files": specs}
    # every data length 0..1300 (thorough) / boundary sweep (quick), single file
    lens = range(0, 1301) if thorough else list(range(0, 20)) + list(range(250, 262)) + list(range(505, 516)) + list(range(760, 770)) + [1019, 1020, 1021, 1275]
    for L in lens:
        r = rng(seed, "tape", "len", L)
        yield {"id": "len/%d" % L, "kind": "own", "files": [G.gen_file(r, "tape", length=L), G.gen_file(r, "tape", length=3)]}
    if thorough:
        for k in range(300):
            r = rng(seed, "tape", "big", k)
            yield {"id": "big/%d" % k, "kind": "own", "files": [G.gen_file(r, "tape", length=r.choice([65535, 65534, 32768, 40000, r.randrange(1300, 65536)]))]}
    for k in range(30000 if thorough else 1200):
        r = rng(seed, "tape", "foreign", k)
        nf = r.choice([0, 1, 1, 2, 3, 4])
        specs = [G.gen_file(r, "tape") for _ in range(nf)]
        yield {"id": "foreign/%d" % k, "kind": "foreign", "files": specs, "gen": k}


def field_diff(got, spec):
    """got: repository CoCoFile from the reader; spec: generator dict -> name of first differing field or None"""
    if got.name.upper().ljust(8)[:8] != spec["name"].upper().ljust(8)[:8]:
        return "name"
    if mediamon.vint(got.type) != spec["type"]:
        return "type"
    if mediamon.vint(got.data_type) != spec["dtype"]:
        return "data-type"
    if mediamon.vint(got.load_addr) != spec["load"]:
        return "load"
    if mediamon.vint(got.exec_addr) != spec["exec"]:
        return "exec"
    if bytes(got.data) != bytes.fromhex(spec["data"]):
        return "data"
    return None


def compare_listing(ctx, prop, check, form, listed, specs, wit):
    """shadow list vs what the tool's reader returns; models the one known deviation (listing stops at an empty file)"""
    if len(listed) != len(specs):
        first_empty = next((i for i, s in enumerate(specs) if len(s["data"]) == 0), None)
        if first_empty is not None and len(listed) == first_empty and all(field_diff(a, b) is None for a, b in zip(listed, specs)):
            ctx.violation(check, form, "COUNT:listing-stops-at-empty-file", dict(wit, listed=len(listed), stored=len(specs)), {"has_empty": True}, prop=prop)
        else:
            ctx.violation(check, form, "COUNT:%+d" % (len(listed) - len(specs)), dict(wit, listed=len(listed), stored=len(specs)), {"has_empty": first_empty is not None}, prop=prop)
        return False
    for i, (a, b) in enumerate(zip(listed, specs)):
        d = field_diff(a, b)
        if d:
            ctx.violation(check, form, "FIELD:" + d, dict(wit, index=i, file=G.brief(b), got_name=repr(a.name), got_len=len(a.data)), {}, prop=prop)
            return False
    return True


def run_case(case, ctx):
    m0 = ctx.monitors.get("M7.tape-post", 0)
    v0 = sum(v["count"] for v in ctx.violations.values() if v["record"]["property"] == ctx.prop)
    _run_case(case, ctx)
    if ctx.prop == "C14" and ctx.monitors.get("M7.tape-post", 0) > m0 and sum(v["count"] for v in ctx.violations.values() if v["record"]["property"] == "C14") == v0:
        ctx.nontriv(("wellformed", case["id"]))


def _run_case(case, ctx):
    from cocoasm.virtualfiles.cassette import CassetteFile
    from cocoasm.virtualfiles.virtual_file_exceptions import VirtualFileValidationError
    specs = case["files"]
    wit = {"show": case["id"] + " [" + "; ".join(G.brief(s) for s in specs)[:100] + "]", "files": [dict(s, data=s["data"][:64]) for s in specs]}
    if case["kind"] == "own":
        mediamon.set_form("own")
        c = CassetteFile()
        nonempty_so_far = True
        for j, s in enumerate(specs):
            if j and (len(case["id"]) + j) % 3 == 0:
                # save / re-open between additions: a new object on a copy of the bytes, as a list, bytes or a bytearray
                conv = (list, bytes, bytearray)[(len(case["id"]) + j) // 3 % 3]
                c = CassetteFile(buffer=conv(c.get_buffer()))
                ctx.mon("reopened-between-additions")
            try:
                c.add_file(G.to_coco(s))                    # M7 fires per add_file
            except Exception as e:
                ctx.outcome("add-raised")
                ctx.violation("tape-roundtrip", "own.add", "ADD-RAISED:%s" % type(e).__name__, dict(wit, error=str(e)[:100], after=j),
                              prop="C09" if ctx.prop == "C09" else "C06")
                return
            # the same object is listed between additions (list, add, list ...)
            if True:
                try:
                    mid = c.list_files()
                    ctx.mon("reader.list_files.same-object")
                    if not compare_listing(ctx, "C09" if ctx.prop == "C09" else "C06", "tape-roundtrip", "own.same-object", mid, specs[:j + 1], wit):
                        return
                except Exception as e:
                    ctx.violation("tape-roundtrip", "own.same-object", "READER-RAISED:%s" % type(e).__name__, dict(wit, error=str(e)[:100]), prop="C09" if ctx.prop == "C09" else "C06")
                    return
            else:
                nonempty_so_far = False
        written = bytes(c.get_buffer())
        # whole image strict parse (C14) in addition to the per-call regions
        try:
            parsed = RT.parse(written)
            ctx.mon("R4.strict-parse")
            if len(parsed) != len(specs):
                ctx.violation("tape-wellformed", "own", "IMAGE-FILE-COUNT", wit, prop="C14")
        except RT.TapeError as e:
            ctx.violation("tape-wellformed", "own", "MALFORMED:" + e.reason.split(" (")[0], dict(wit, error=str(e)), prop="C14")
        form = "own"
    else:
        r = rng("foreign-tape", case["gen"], ctx.seed)
        fl = [dict(name=s["name"].ljust(8)[:8].encode("latin-1"), ftype=s["type"], dtype=s["dtype"], load=s["load"], exec=s["exec"],
                   data=bytes.fromhex(s["data"])) for s in specs]
        written = RT.generate(fl, r)
        assert [f["data"] for f in RT.parse(written)] == [f["data"] for f in fl]      # generator sanity (reference vs reference)
        form = "foreign"
    try:
        listed = CassetteFile(buffer=list(written)).list_files()
        ctx.mon("reader.list_files")
    except Exception as e:
        ctx.outcome("reader-raised")
        ctx.violation("tape-roundtrip", form, "READER-RAISED:%s" % type(e).__name__, dict(wit, error=str(e)[:100]), prop="C06")
        return
    ok = compare_listing(ctx, "C06", "tape-roundtrip", form, listed, specs, wit)
    if ok and specs:
        # the same bytes as a host file, opened the way file_util.py --list opens them (container sniffing included)
        import tempfile
        from cocoasm.virtualfiles.virtual_file import VirtualFile
        from cocoasm.virtualfiles.source_file import SourceFile, SourceFileType
        fd, path = tempfile.mkstemp(suffix=".cas", dir=os.environ.get("VERIF_WORK"))
        try:
            with os.fdopen(fd, "wb") as fh:
                fh.write(written)
            vf = VirtualFile(SourceFile(path, file_type=SourceFileType.BINARY))
            vf.open_virtual_file()
            ctx.mon("reader.host-file-listing")
            ok = compare_listing(ctx, "C06", "tape-roundtrip", form + ".host-file", vf.list_files(), specs, wit)
        except Exception as e:
            ctx.violation("tape-roundtrip", form + ".host-file", "READER-RAISED:%s" % type(e).__name__, dict(wit, error=str(e)[:100]), prop="C06")
            ok = False
        finally:
            os.remove(path)
    if ok and specs and sum(len(s_["data"]) for s_ in specs) < 40000:
        # the same stream handed over as bytes / bytearray (what open(path, "rb").read() gives) instead of a list of integers
        for conv in (bytes, bytearray):
            fm = "%s.buffer-%s" % (form, conv.__name__)
            try:
                ctx.mon("reader.list_files.bytes-like-buffer")
                ok = compare_listing(ctx, "C06", "tape-roundtrip", fm, CassetteFile(buffer=conv(written)).list_files(), specs, wit) and ok
            except Exception as e:
                ctx.violation("tape-roundtrip", fm, "READER-RAISED:%s" % type(e).__name__, dict(wit, error=str(e)[:100]), prop="C06")
                ok = False
    if ok and listed:
        # second generation: the files just listed are themselves a list of files - write them to a new tape and list again
        # (what a tape-to-tape copy and --append do); the reference parser judges the second tape too
        try:
            c2 = CassetteFile()
            c2.add_files(listed)
            again = CassetteFile(buffer=list(c2.get_buffer())).list_files()
            ctx.mon("reader.list_files.second-generation")
            ok = compare_listing(ctx, "C06", "tape-roundtrip", form + ".second-generation", again, specs, wit)
            if ok:
                ref2 = RT.parse(bytes(c2.get_buffer()))
                for a_, b_ in zip(ref2, specs):
                    if (a_["load"], a_["exec"], a_["data"]) != (b_["load"], b_["exec"], bytes.fromhex(b_["data"])):
                        ctx.violation("tape-roundtrip", form + ".second-generation", "FIELD:re-written-header-or-data", dict(wit, got=(a_["load"], a_["exec"]), want=(b_["load"], b_["exec"])), {}, prop="C06")
                        ok = False
                        break
        except Exception as e:
            ctx.violation("tape-roundtrip", form + ".second-generation", "READER-RAISED:%s" % type(e).__name__, dict(wit, error=str(e)[:100]), prop="C06")
            ok = False
    ctx.outcome("ok" if ok else "mismatch")
    if ok:
        if ctx.prop != "C14":
            ctx.nontriv(case["id"])
        for s in specs:
            L = len(s["data"]) // 2
            ctx.cell("%s/len-%s" % (form, L if L in G.TAPE_LEN else ("multi-block" if L > 255 else "other")))
        if len(ctx.samples) < 3 and specs:
            ctx.sample({"case": case["id"], "files": [G.brief(s) for s in specs], "image_bytes": len(written)})


def gate_c06(stats):
    out = []
    if stats["monitors"].get("reader.list_files", 0) == 0:
        out.append("reader never evaluated")
    c = stats["cells"]
    for need in ("own/len-255", "own/len-256", "own/len-1", "foreign/len-255", "own/multi-block"):
        if not any(k == need or (need.endswith("multi-block") and k.startswith("own/") and k.split("-")[-1].isdigit() and int(k.split("-")[-1]) > 255) for k in c):
            out.append("no round trip observed for " + need)
    return out


def gate_c14(stats):
    out = []
    if stats["monitors"].get("M7.tape-post", 0) == 0:
        out.append("M7 postcondition on CassetteFile.add_file never evaluated")
    if stats["monitors"].get("R4.strict-parse", 0) == 0:
        out.append("strict parser never ran on a whole image")
    return out
