"""
G1 - the structured statement space.  A form record says what the source statement means
(mnemonic, addressing form, registers, value) independently of the repository; the oracle
compares it with what the datasheet decoder (R1) reads back from the emitted bytes.
Validity of a (mnemonic, mode) cell comes from R1.MODES (datasheet), never from INSTRUCTIONS.
"""
from vlib.ref import mc6809 as R

POS = [0, 1, 2, 15, 16, 17, 31, 32, 127, 128, 129, 255, 256, 257, 4095, 4096, 32767, 32768, 32769, 65534, 65535]
NEG = [-1, -2, -15, -16, -17, -127, -128, -129, -255, -256, -257, -32767, -32768]
REGS = "XYUS"
CHARS = "AZaz09"


def vclass(v):
    if v == 0:
        return "0"
    if v > 0:
        return "u4" if v <= 15 else "u7" if v <= 127 else "u8" if v <= 255 else "u15" if v <= 32767 else "u16"
    return "n5" if v >= -16 else "n8" if v >= -128 else "n16"


def spellings(v, full=True):
    """[(class, text)] all spellings of the constant v the README grammar shows"""
    if v < 0:
        return [("dec", str(v))]
    out = [("dec", str(v)), ("hexmin", "$%X" % v)]
    if full:
        for n in (2, 3, 4):
            t = "$%0*X" % (n, v)
            if len(t) - 1 == n and t != out[1][1]:
                out.append(("hex%d" % n, t))
        if v < 256:
            out.append(("bin8", "%" + format(v, "08b")))
        out.append(("bin16", "%" + format(v, "016b")))
        if v < 128 and chr(v).isalnum():
            out.append(("chr", "'" + chr(v)))
    return out


def mem_mnemonics():
    """(source mnemonic, canonical) for every mnemonic that has at least one of imm/dir/idx/ext"""
    return [(s, c) for s, c in R.all_mnemonics() if set(R.MODES[c]) & {"imm", "dir", "idx", "ext"}]


def traits_of(canon):
    m = R.MODES[canon]
    some = next(iter(m.values()))
    return {"op16": R.OPERAND_BITS.get(canon, 8) == 16, "opbytes": len(some[0]), "lea": canon.startswith("LEA")}


def wrap(ind, t):
    return "[" + t + "]" if ind else t


class Form(object):
    __slots__ = ("mn", "canon", "form", "operand", "expect", "traits", "pre", "post")

    def __init__(self, mn, canon, form, operand, expect, traits, pre=(), post=()):
        self.mn, self.canon, self.form, self.operand, self.expect = mn, canon, form, operand, expect
        self.traits, self.pre, self.post = traits, list(pre), list(post)

    def lines(self):
        return self.pre + [" %s %s\n" % (self.mn, self.operand)] + self.post

    def case(self):
        return {"id": "%s/%s/%s" % (self.form, self.mn, self.operand), "lines": self.lines(), "target": len(self.pre),
                "mn": self.mn, "canon": self.canon, "form": self.form, "expect": self.expect, "traits": self.traits,
                "operand": self.operand}


def value_forms(src, canon, values, full_spell=True, regs=REGS, inds=(False, True), which=None):
    """All value-carrying forms of one mnemonic for the given values (literal carrier)."""
    m = R.MODES[canon]
    base = traits_of(canon)
    for v in values:
        for sc, s in spellings(v, full_spell):
            tr = dict(base, vclass=vclass(v), spell=sc, carrier="lit")
            if which is None or "imm" in which:
                if "imm" in m:
                    bits = m["imm"][1]
                    lim = 1 << bits
                    if -(lim // 2) <= v < lim:
                        yield Form(src, canon, "imm%d" % bits, "#" + s, {"mode": "imm", "val": v % lim, "bits": bits}, tr)
                    else:
                        yield Form(src, canon, "imm%d.range" % bits, "#" + s, None, tr)
                elif v in (0, 1, 255):
                    yield Form(src, canon, "imm.nomode", "#" + s, None, tr)
            if v >= 0 and (which is None or "mem" in which):
                if "ext" in m:
                    yield Form(src, canon, "mem.plain", s, {"mode": "mem", "val": v}, tr)
                    if v < 256:
                        yield Form(src, canon, "mem.dir", "<" + s, {"mode": "dir", "val": v}, tr)
                    else:
                        yield Form(src, canon, "mem.dir.range", "<" + s, None, tr)
                    yield Form(src, canon, "mem.ext", ">" + s, {"mode": "ext", "val": v}, tr)
                elif "idx" not in m and "imm" in m and v in (0, 255, 256):
                    yield Form(src, canon, "mem.nomode", s, None, tr)
                if "idx" in m:
                    yield Form(src, canon, "extind", "[" + s + "]", {"mode": "idx", "kind": "extind", "addr": v}, tr)
            if "idx" in m and (which is None or "idx" in which):
                for ind in inds:
                    t2 = dict(tr, ind=ind)
                    for reg in regs:
                        yield Form(src, canon, "idx.const", wrap(ind, "%s,%s" % (s, reg)),
                                   {"mode": "idx", "kind": "off", "reg": reg, "off": v, "ind": ind}, t2)
                    yield Form(src, canon, "pcr.num", wrap(ind, "%s,PCR" % s),
                               {"mode": "idx", "kind": "pcr", "off": v, "ind": ind}, t2)


def fixed_forms(src, canon):
    """Forms without a free value: inherent, no-offset / accumulator / auto inc-dec indexed."""
    m = R.MODES[canon]
    base = traits_of(canon)
    if "inh" in m:
        yield Form(src, canon, "inh", "", {"mode": "inh"}, base)
    elif "rel" not in m and "reglist" not in m and "regpair" not in m:
        yield Form(src, canon, "inh.nomode", "", None, base)
    if "idx" in m:
        for ind in (False, True):
            tr = dict(base, ind=ind)
            for reg in REGS:
                yield Form(src, canon, "idx.zero", wrap(ind, "," + reg), {"mode": "idx", "kind": "off", "reg": reg, "off": 0, "ind": ind}, tr)
                if not ind:
                    # the README's own spelling of the zero offset form: "LDB X"
                    yield Form(src, canon, "idx.zero.bare-register", reg, {"mode": "idx", "kind": "off", "reg": reg, "off": 0, "ind": False}, tr)
                for acc in "ABD":
                    yield Form(src, canon, "idx.acc", wrap(ind, acc + "," + reg), {"mode": "idx", "kind": "acc", "acc": acc, "reg": reg, "ind": ind}, tr)
                yield Form(src, canon, "idx.inc2", wrap(ind, "," + reg + "++"), {"mode": "idx", "kind": "inc2", "reg": reg, "ind": ind}, tr)
                yield Form(src, canon, "idx.dec2", wrap(ind, ",--" + reg), {"mode": "idx", "kind": "dec2", "reg": reg, "ind": ind}, tr)
                yield Form(src, canon, "idx.inc1" + (".ind-illegal" if ind else ""), wrap(ind, "," + reg + "+"),
                           None if ind else {"mode": "idx", "kind": "inc1", "reg": reg, "ind": False}, tr)
                yield Form(src, canon, "idx.dec1" + (".ind-illegal" if ind else ""), wrap(ind, ",-" + reg),
                           None if ind else {"mode": "idx", "kind": "dec1", "reg": reg, "ind": False}, tr)
    elif "imm" in m or "inh" in m:
        yield Form(src, canon, "idx.nomode", ",X", None, base)


STACK_NAMES = {"PSHS": ['CC', 'A', 'B', 'DP', 'X', 'Y', 'U', 'PC'], "PULS": ['CC', 'A', 'B', 'DP', 'X', 'Y', 'U', 'PC'],
               "PSHU": ['CC', 'A', 'B', 'DP', 'X', 'Y', 'S', 'PC'], "PULU": ['CC', 'A', 'B', 'DP', 'X', 'Y', 'S', 'PC']}


def reglist_forms(rnd=None, with_d=True):
    for mn, names in STACK_NAMES.items():
        own = "S" if mn.endswith("S") else "U"
        for mask in range(1, 256):
            regs = [names[k] for k in range(8) if mask >> k & 1]
            order = list(regs)
            if rnd is not None:
                rnd.shuffle(order)
            yield Form(mn, mn, "reglist", ",".join(order), {"mode": "reglist", "regs": sorted(regs)}, {"n": len(regs)})
            if with_d and "A" in regs and "B" in regs:
                o2 = ["D"] + [r for r in order if r not in ("A", "B")]
                yield Form(mn, mn, "reglist.D", ",".join(o2), {"mode": "reglist", "regs": sorted(regs)}, {"n": len(regs)})
        yield Form(mn, mn, "reglist.own-stack", own, None, {})
        yield Form(mn, mn, "reglist.own-stack", "A," + own, None, {})
        yield Form(mn, mn, "reglist.empty", "", None, {})
        yield Form(mn, mn, "reglist.unknown", "A,Q", None, {})
        for red, want in (("A,D", ["A", "B"]), ("D,B", ["A", "B"]), ("A,B,D", ["A", "B"]), ("D,A,X", ["A", "B", "X"]), ("CC,D,B,PC", ["A", "B", "CC", "PC"]), ("A,A", ["A"]),
                          ("X,X,Y", ["X", "Y"])):
            yield Form(mn, mn, "reglist.redundant", red, {"mode": "reglist", "regs": sorted(want)}, {"n": len(want)})
    # the same list strings once more after every mnemonic has been assembled in this process: acceptance must not depend on history
    for mn, names in STACK_NAMES.items():
        own = "S" if mn.endswith("S") else "U"
        for lst in (own, "A," + own, own + ",X", "U,PC" if own == "U" else "S,PC", "X,Y," + own):
            yield Form(mn, mn, "reglist.own-stack", lst, None, {"after_other_family": True})


TFR8 = ["A", "B", "CC", "DP"]
TFR16 = ["D", "X", "Y", "U", "S", "PC"]


def regpair_forms():
    for mn in ("TFR", "EXG"):
        for a in TFR8 + TFR16:
            for b in TFR8 + TFR16:
                ok = (a in TFR8) == (b in TFR8)
                yield Form(mn, mn, "regpair" if ok else "regpair.size-mismatch", "%s,%s" % (a, b),
                           {"mode": "regpair", "r0": a, "r1": b} if ok else None, {})
        yield Form(mn, mn, "regpair.count", "A", None, {})
        yield Form(mn, mn, "regpair.count", "A,B,CC", None, {})
        yield Form(mn, mn, "regpair.unknown", "A,Q", None, {})
        yield Form(mn, mn, "regpair.unknown", "W,X", None, {})


def compare(decoded, expect, canon):
    """None if the decoded instruction is what the form record says, else (symptom, field)."""
    if R.canon(decoded["mn"]) != canon:
        return "WRONG-MNEMONIC"
    em = expect["mode"]
    dm = decoded["mode"]
    if em == "mem":
        if dm == "ext" and decoded["val"] == expect["val"]:
            return None
        if dm == "dir" and expect["val"] < 256 and decoded["val"] == expect["val"]:
            return None
        return "WRONG-FIELD:mode" if dm not in ("dir", "ext") else "WRONG-FIELD:val"
    if em != dm:
        return "WRONG-FIELD:mode"
    if em == "inh":
        return None
    if em == "imm":
        if decoded["bits"] != expect["bits"]:
            return "WRONG-FIELD:bits"
        return None if decoded["val"] == expect["val"] else "WRONG-FIELD:val"
    if em in ("dir", "ext"):
        return None if decoded["val"] == expect["val"] else "WRONG-FIELD:val"
    if em == "reglist":
        return None if sorted(decoded["regs"]) == sorted(expect["regs"]) else "WRONG-FIELD:regs"
    if em == "regpair":
        return None if (decoded["r0"], decoded["r1"]) == (expect["r0"], expect["r1"]) else "WRONG-FIELD:regs"
    if em == "idx":
        k = expect["kind"]
        if decoded["kind"] != k:
            return "WRONG-FIELD:kind"
        if k == "extind":
            return None if decoded["addr"] == expect["addr"] else "WRONG-FIELD:addr"
        if decoded["ind"] != expect["ind"]:
            return "WRONG-FIELD:ind"
        if k != "pcr" and decoded["reg"] != expect["reg"]:
            return "WRONG-FIELD:reg"
        if k in ("off", "pcr"):
            return None if decoded["off"] % 65536 == expect["off"] % 65536 else "WRONG-FIELD:off"
        if k == "acc":
            return None if decoded["acc"] == expect["acc"] else "WRONG-FIELD:acc"
        return None
    return "WRONG-FIELD:mode"
