"""Shared judging of single-statement cases (C01 strict oracle, C12 generic oracle)."""
from vlib import asmmon
from vlib.ref import mc6809 as R
from vlib.forms import compare

TAIL = ["ZZ9 NOP\n"]
# forms the README grammar does not clearly make valid: a diagnostic is as good as the exact encoding (never anything else).
# reglist.redundant = a register named twice / D next to A or B (PSHS A,A  PSHS D,A): an assembler may call that an error
REJECTION_PERMITTED = {"reglist.redundant"}


def bad_class(msg):
    if msg.startswith("trailing"):
        return "trailing-" + msg.split()[1]
    if msg.startswith("truncated"):
        return "truncated"
    if msg.startswith("illegal postbyte"):
        return "illegal-postbyte"
    if "opcode" in msg:
        return "illegal-opcode"
    return msg.replace(" ", "-")[:30]


def observe(case):
    lines = case["lines"] + (TAIL if not case.get("notail") else [])
    o = asmmon.assemble(lines, keep_program=False)
    return o, lines


def target_info(o, case):
    t = case["target"]
    st = o.stmts[t]
    nxt = o.stmts[t + 1] if t + 1 < len(o.stmts) else None
    reserved = None
    if nxt is not None and nxt["addr"] is not None and st["addr"] is not None:
        reserved = nxt["addr"] - st["addr"]
    return st, reserved


def witness(case, o, lines, extra=None):
    w = {"source": "".join(lines), "show": (case["lines"][case["target"]].strip() + " -> " + o.brief())[:160]}
    if extra:
        w.update(extra)
    return w


def judge_c01(case, ctx):
    """strict oracle: valid statement accepted, bytes decode to exactly what the form says"""
    exp = case["expect"]
    if exp is None:
        return
    o, lines = observe(case)
    form, traits = case["form"], case["traits"]
    ctx.mon("M5.outcome")
    if o.outcome == "diag" and form in REJECTION_PERMITTED:
        ctx.outcome("rejected-permitted")
        ctx.cell("rejected-permitted/" + form)
        return
    if o.outcome != "ok":
        ctx.outcome("not-accepted")
        sym = "REJECTED-VALID" if o.outcome == "diag" else "NOT-ACCEPTED:%s:%s@%s" % (o.outcome, o.exc, o.where)
        ctx.violation("encode", form, sym, witness(case, o, lines), traits)
        return
    st, reserved = target_info(o, case)
    ctx.mon("M1.asm-post")
    b = bytes(st["bytes"])
    try:
        d = R.decode_exact(b)
    except R.Bad as e:
        ctx.outcome("malformed")
        ctx.violation("encode", form, "MALFORMED:" + bad_class(str(e)), witness(case, o, lines, {"bytes": b.hex()}), traits)
        return
    ctx.mon("R1.decode")
    sym = compare(d, exp, case["canon"])
    if sym:
        ctx.outcome("miscompiled")
        ctx.violation("encode", form, sym, witness(case, o, lines, {"bytes": b.hex(), "decoded": repr(d), "expected": exp}), traits)
        return
    ctx.outcome("ok")
    ctx.cell("%s/%s" % (case["canon"], form))
    ctx.nontriv(lines[case["target"]])
    if form not in ctx.extra.setdefault("_seen_forms", {}):
        ctx.extra["_seen_forms"][form] = 1
        ctx.sample({"source": lines[case["target"]].strip(), "bytes": b.hex().upper(), "decoded": repr(d), "expected": exp}, limit=8)


def judge_c12(case, ctx, intent_known=True):
    """generic oracle: if accepted, the bytes are exactly one instruction of that mnemonic and count == reserved;
    ill-typed statements (expect None, intent known) must be rejected."""
    exp = case.get("expect")
    o, lines = observe(case)
    form, traits = case["form"], case.get("traits", {})
    ctx.mon("M5.outcome")
    if o.outcome == "diag":
        ctx.outcome("rejected")
        if exp is None and intent_known:
            ctx.cell("rejected/" + form)
            ctx.nontriv(lines[case["target"]])
        return
    if o.outcome != "ok":
        ctx.outcome("not-ok:" + o.outcome)     # internal errors / livelock are C13's subject
        return
    st, reserved = target_info(o, case)
    ctx.mon("M1.asm-post")
    b = bytes(st["bytes"])
    if exp is None and intent_known:
        ctx.outcome("accepted-invalid")
        ctx.violation("illtyped", form, "ACCEPTED-INVALID", witness(case, o, lines, {"bytes": b.hex()}), traits)
        return
    try:
        d = R.decode_exact(b)
    except R.Bad as e:
        ctx.outcome("malformed")
        ctx.violation("wellformed", form, "MALFORMED:" + bad_class(str(e)), witness(case, o, lines, {"bytes": b.hex()}), traits)
        return
    ctx.mon("R1.decode")
    if R.canon(d["mn"]) != case["canon"]:
        ctx.outcome("wrong-mnemonic")
        ctx.violation("wellformed", form, "WRONG-MNEMONIC", witness(case, o, lines, {"bytes": b.hex(), "decoded": repr(d)}), traits)
        return
    if reserved is not None and reserved != len(b):
        ctx.outcome("size-mismatch")
        ctx.violation("wellformed", form, "SIZE:%+d" % (len(b) - reserved),
                      witness(case, o, lines, {"bytes": b.hex(), "reserved": reserved}), traits)
        return
    if exp is not None and intent_known:
        # second sentence of C12: a value is never "encoded as something else" - an accepted statement whose operand value is known
        # must carry that value (a field one size too small silently turns 16 into -16, 128 into -128, 256 into 0)
        sym = compare(d, exp, case["canon"])
        if sym in ("WRONG-FIELD:val", "WRONG-FIELD:off", "WRONG-FIELD:addr"):
            ctx.outcome("encoded-as-another-value")
            ctx.violation("value", form, "ENCODED-AS-ANOTHER-VALUE:" + sym.split(":")[1],
                          witness(case, o, lines, {"bytes": b.hex(), "decoded": repr(d), "expected": exp}), traits)
            return
    ctx.outcome("ok")
    ctx.cell("accepted/%s" % case["canon"])
    ctx.nontriv(lines[case["target"]])
    if form not in ctx.extra.setdefault("_seen_forms", {}):
        ctx.extra["_seen_forms"][form] = 1
        ctx.sample({"source": lines[case["target"]].strip(), "bytes": b.hex().upper(), "decoded": repr(d), "reserved": reserved}, limit=8)


def judge_reject_or_exact(case, ctx):
    """the statement may be rejected; if it is accepted it must mean exactly what the form record says"""
    o, lines = observe(case)
    form, traits = case["form"], case.get("traits", {})
    ctx.mon("M5.outcome")
    if o.outcome == "diag":
        ctx.outcome("rejected")
        ctx.cell("rejected/" + form)
        ctx.nontriv(lines[case["target"]])
        return
    if o.outcome != "ok":
        ctx.outcome("not-ok:" + o.outcome)
        return
    st, reserved = target_info(o, case)
    ctx.mon("M1.asm-post")
    b = bytes(st["bytes"])
    try:
        d = R.decode_exact(b)
    except R.Bad as e:
        ctx.violation("wellformed", form, "MALFORMED:" + bad_class(str(e)), witness(case, o, lines, {"bytes": b.hex()}), traits)
        return
    ctx.mon("R1.decode")
    sym = compare(d, case["expect"], case["canon"])
    if sym:
        ctx.outcome("accepted-as-something-else")
        ctx.violation("illtyped", form, "ENCODED-AS-SOMETHING-ELSE:" + sym.split(":")[-1], witness(case, o, lines, {"bytes": b.hex(), "decoded": repr(d), "expected": case["expect"]}), traits)
        return
    ctx.outcome("ok")
    ctx.nontriv(lines[case["target"]])
