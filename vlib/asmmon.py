"""
Monitors on the real assembler (attached from the harness, nothing in /repo is edited):

 M1 asm-post   postcondition recorder on Program.translate_statements: per statement address / reserved size /
               emitted bytes (through the real Program.get_binary_array on a one-statement view), listing + symbols
 M2 sizing     invariant at Program.all_sizes_fixed: a repeated loop state while a statement is still unsized is a
               proof of livelock (the loop body is a deterministic function of that state) -> raises Livelock
 M3 steps      sys.monitoring LINE counter restricted to repository code objects; budget -> StepBudgetExceeded
 M5 outcome    classification at the Program.process boundary
"""
import os, sys, re, traceback

REPO = os.environ.get("VERIF_REPO", "/repo")
if REPO not in sys.path:
    sys.path.insert(0, REPO)


class Livelock(BaseException):
    pass


class StepBudgetExceeded(BaseException):
    pass


COUNTS = {"M1": 0, "M2": 0, "M2_unfixed": 0, "M3_lines": 0}
_installed = False
_mods = {}


def mods():
    if not _mods:
        import cocoasm.program as P, cocoasm.statement as S, cocoasm.exceptions as E, cocoasm.values as V
        _mods.update(P=P, S=S, E=E, V=V)
    return _mods


def install():
    global _installed
    if _installed:
        return
    _installed = True
    P = mods()["P"]
    Program = P.Program
    orig_fixed = Program.all_sizes_fixed

    def monitored_all_sizes_fixed(self):
        r = orig_fixed(self)
        COUNTS["M2"] += 1
        snap = tuple((s.fixed_size, s.code_pkg.size, s.code_pkg.max_size, s.pcr_size_hint,
                      s.code_pkg.post_byte.int if not s.code_pkg.post_byte.is_none() else None)
                     for s in self.statements)
        it = self.__dict__.get("_v_iters", 0) + 1
        self.__dict__["_v_iters"] = it
        if not r:
            COUNTS["M2_unfixed"] += 1
            seen = self.__dict__.setdefault("_v_seen", set())
            if snap in seen:
                unfixed = [i for i, s in enumerate(self.statements) if not s.fixed_size]
                raise Livelock("size-resolution loop repeated a state at iteration %d; unsized statement indices %s"
                               % (it, unfixed[:8]))
            seen.add(snap)
        return r

    Program.all_sizes_fixed = monitored_all_sizes_fixed

    orig_translate = Program.translate_statements

    def monitored_translate(self):
        r = orig_translate(self)
        COUNTS["M1"] += 1
        self.__dict__["_v_post"] = [(s.code_pkg.address.int if not s.code_pkg.address.is_none() else None,
                                     s.code_pkg.size) for s in self.statements]
        return r

    Program.translate_statements = monitored_translate


# ------------------------------------------------------------------------------ M3 step counter
_step = {"on": False, "count": 0, "budget": None}


def _on_line(code, line):
    if not code.co_filename.startswith(REPO):
        return sys.monitoring.DISABLE
    _step["count"] += 1
    if _step["budget"] is not None and _step["count"] > _step["budget"]:
        b = _step["budget"]
        _step["budget"] = None
        raise StepBudgetExceeded("more than %d repository line events" % b)


def steps_start(budget=None):
    mon = sys.monitoring
    if not _step["on"]:
        mon.use_tool_id(mon.PROFILER_ID, "verif-steps")
        mon.register_callback(mon.PROFILER_ID, mon.events.LINE, _on_line)
        _step["on"] = True
    _step["count"] = 0
    _step["budget"] = budget
    mon.set_events(mon.PROFILER_ID, mon.events.LINE)


def steps_stop():
    sys.monitoring.set_events(sys.monitoring.PROFILER_ID, 0)
    _step["budget"] = None
    COUNTS["M3_lines"] += _step["count"]
    return _step["count"]


# ------------------------------------------------------------------------------ observation
LISTING_RE = re.compile(r"^\$([0-9A-F]{4}) (.{10}) (.{10,}?) +(\S*)")


class Obs(object):
    __slots__ = ("outcome", "exc", "where", "message", "diag_statement", "program", "stmts", "image", "symbols",
                 "origin", "name", "listing", "iters", "steps", "post_error")

    def __init__(self):
        self.outcome = None      # ok | diag | internal | livelock | stepbudget
        self.exc = None
        self.where = None
        self.message = None
        self.diag_statement = None
        self.program = None
        self.stmts = []
        self.image = None
        self.symbols = None
        self.origin = None
        self.name = None
        self.listing = None
        self.iters = 0
        self.steps = None
        self.post_error = None

    def brief(self):
        if self.outcome == "ok":
            return "ok:" + bytes(self.image).hex().upper()
        return "%s:%s@%s:%s" % (self.outcome, self.exc, self.where, (self.message or "")[:80])


def _innermost_repo_frame(tb):
    where = None
    for fr in traceback.extract_tb(tb):
        if fr.filename.startswith(REPO):
            where = "%s.%s" % (os.path.basename(fr.filename)[:-3], fr.name)
    return where


def stmt_bytes(Program, st):
    view = Program()
    view.statements = [st]
    return view.get_binary_array()


def assemble(lines, budget=None, want_steps=False, keep_program=True, include_listing=True):
    """Run the real Program.process on `lines` under the monitors and return an Obs."""
    install()
    m = mods()
    Program = m["P"].Program
    E = m["E"]
    o = Obs()
    p = Program()
    if want_steps or budget is not None:
        steps_start(budget)
    try:
        try:
            p.process(lines)
        finally:
            if want_steps or budget is not None:
                o.steps = steps_stop()
    except (E.ParseError, E.TranslationError) as e:
        o.outcome = "diag"
        o.exc = type(e).__name__
        o.message = str(getattr(e, "value", ""))
        st = getattr(e, "statement", None)
        try:
            o.diag_statement = st if isinstance(st, str) else (None if st is None else str(st))
        except Exception as e2:            # a diagnostic whose statement cannot even be printed
            o.diag_statement = None
            o.post_error = "str(statement) raised %s" % type(e2).__name__
        o.where = _innermost_repo_frame(e.__traceback__)
        o.iters = p.__dict__.get("_v_iters", 0)
        return o
    except Livelock as e:
        o.outcome = "livelock"
        o.exc = "Livelock"
        o.message = str(e)
        o.iters = p.__dict__.get("_v_iters", 0)
        return o
    except StepBudgetExceeded as e:
        o.outcome = "stepbudget"
        o.exc = "StepBudgetExceeded"
        o.message = str(e)
        return o
    except RecursionError as e:
        o.outcome = "internal"
        o.exc = "RecursionError"
        o.where = "recursion"
        o.message = ""
        return o
    except Exception as e:
        o.outcome = "internal"
        o.exc = type(e).__name__
        o.message = str(e)[:200]
        o.where = _innermost_repo_frame(e.__traceback__)
        return o
    o.iters = p.__dict__.get("_v_iters", 0)
    # success: observe through the public API
    try:
        o.image = list(p.get_binary_array())
        listing = p.get_statements() if include_listing else None
        o.symbols = p.get_symbol_table()
        o.origin = None if p.origin.is_none() else p.origin.int
        o.name = p.name
        o.listing = listing
        post = p.__dict__.get("_v_post")
        for idx, st in enumerate(p.statements):
            b = stmt_bytes(Program, st)
            addr = None
            if listing is not None:
                mm = LISTING_RE.match(listing[idx])
                if mm:
                    addr = int(mm.group(1), 16)
            if addr is None and not st.code_pkg.address.is_none():
                addr = st.code_pkg.address.int
            o.stmts.append({"i": idx, "label": st.label, "mn": st.mnemonic, "addr": addr,
                            "size": st.code_pkg.size, "bytes": b,
                            "pseudo": bool(st.instruction.is_pseudo),
                            "hexcol": (listing[idx][6:16].rstrip() if listing is not None else None)})
        o.outcome = "ok"
    except Exception as e:
        o.outcome = "internal"
        o.exc = type(e).__name__
        o.message = str(e)[:200]
        o.where = "post:" + str(_innermost_repo_frame(e.__traceback__))
    if keep_program:
        o.program = p
    return o


def parse_symbols(lines):
    """'$VVVV NAME' -> {NAME: int}"""
    out = {}
    for l in lines:
        mm = re.match(r"^\$([0-9A-Fa-f]*)\s+(\S+)$", l)
        if mm:
            out[mm.group(2)] = int(mm.group(1), 16) if mm.group(1) else None
    return out


# ------------------------------------------------------------------------------ layout invariants I1-I4 (C02)

def layout_violations(o):
    """Returns list of (symptom, detail) for an ok observation."""
    out = []
    if o.outcome != "ok":
        return out
    emitting = [s for s in o.stmts if s["bytes"]]
    # I2: image is the in-order concatenation
    cat = []
    for s in o.stmts:
        cat.extend(s["bytes"])
    if cat != list(o.image):
        out.append(("I2:image-not-concatenation", {"image_len": len(o.image), "concat_len": len(cat)}))
    # I1: addresses advance by the bytes emitted (an ORG restarts the count at its operand); only byte-emitting
    # and label-carrying statements are constrained, directives that emit nothing may show any address
    cur = None
    prev = None
    for s in o.stmts:
        if s["mn"] == "ORG":
            cur = s["addr"]
            prev = s
            continue
        constrained = bool(s["bytes"]) or (s["label"] and s["mn"] != "EQU")
        if constrained and s["addr"] is not None:
            if cur is not None and s["addr"] != cur:
                out.append(("I1:address-step", {"stmt": s["i"], "mn": s["mn"], "listing_addr": s["addr"], "expected": cur,
                                                 "prev_mn": prev["mn"] if prev else None,
                                                 "prev_emitted": len(prev["bytes"]) if prev else None}))
                break
            cur = s["addr"]
        if cur is not None:
            cur += len(s["bytes"])
        if constrained:
            prev = s
    # I4: every label has the listing address of the statement that carries it
    syms = parse_symbols(o.symbols or [])
    for s in o.stmts:
        if s["label"] and s["mn"] != "EQU":
            if s["label"] not in syms:
                out.append(("I4:label-missing-from-symbol-table", {"label": s["label"]}))
                break
            if s["addr"] is not None and syms[s["label"]] != s["addr"]:
                out.append(("I4:label-value", {"label": s["label"], "symbol": syms[s["label"]], "listing": s["addr"]}))
                break
    # I3: loadable at reported origin
    if emitting:
        origin = o.origin if o.origin is not None else 0
        off = 0
        for s in o.stmts:
            if s["bytes"]:
                if s["addr"] is not None and s["addr"] - origin != off:
                    out.append(("I3:not-loadable-at-origin", {"stmt": s["i"], "addr": s["addr"], "origin": origin, "offset": off}))
                    break
                off += len(s["bytes"])
    # I7: nothing is placed beyond $FFFF
    for s in o.stmts:
        if s["bytes"] and s["addr"] is not None and s["addr"] + len(s["bytes"]) > 0x10000:
            out.append(("I7:bytes-beyond-$FFFF", {"stmt": s["i"], "addr": s["addr"], "len": len(s["bytes"])}))
            break
    return out


def hex_column_mismatches(o):
    """informational only (the properties do not constrain the listing's hex column): statements whose hex column is not a
    prefix of the bytes they emit"""
    n = 0
    for s in o.stmts:
        if s["hexcol"] is not None and s["hexcol"] != bytes(s["bytes"]).hex().upper()[:10].rstrip():
            n += 1
    return n
