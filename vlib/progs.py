"""
G4 - random multi-statement programs as structured records.

A program is a list of statement records:
   {"label": name or "", "mn": mnemonic, "op": operand template with {name} placeholders for symbol references,
    "kind": generator class, "refs": [names], "abs": bool (operand is an absolute reference to an own label),
    "comment": text}
render() prints source lines from it; renaming / respacing / relocating is done on the record, never by text surgery.
"""
import re

INH = ["NOP", "CLRA", "CLRB", "RTS", "MUL", "ABX", "DAA", "SEX", "INCA", "DECB", "COMA", "NEGB", "TSTA", "ASLA", "LSRB", "ROLA",
       "RORB", "ASRA", "RTI", "SWI2", "SWI3", "LSLA"]
IMM8 = ["LDA", "LDB", "ADDA", "ADDB", "SUBA", "SUBB", "ANDA", "ANDB", "ORA", "ORB", "EORA", "EORB", "CMPA", "CMPB", "ADCA", "SBCB",
        "BITA", "BITB", "ORCC", "ANDCC", "CWAI"]
IMM16 = ["LDX", "LDY", "LDU", "LDS", "LDD", "ADDD", "SUBD", "CMPX", "CMPY", "CMPD", "CMPU", "CMPS"]
MEM8 = ["LDA", "LDB", "STA", "STB", "ADDA", "SUBB", "ANDA", "ORB", "EORA", "CMPB", "ADCA", "SBCA", "BITB", "CLR", "INC", "DEC", "TST",
        "COM", "ASL", "ASR", "LSR", "ROL", "ROR", "LSL"]
MEM16 = ["LDX", "LDY", "LDU", "LDS", "LDD", "STX", "STY", "STU", "STS", "STD", "ADDD", "SUBD", "CMPX", "CMPY", "CMPD", "CMPU", "CMPS"]
JUMP = ["JMP", "JSR"]
LEA = ["LEAX", "LEAY", "LEAU", "LEAS"]
SHORT = ["BRA", "BRN", "BHI", "BLS", "BCC", "BHS", "BCS", "BLO", "BNE", "BEQ", "BVC", "BVS", "BPL", "BMI", "BGE", "BLT", "BGT", "BLE", "BSR"]
LONG = ["L" + m for m in SHORT]
REGS = "XYUS"
LABEL_POOL = ["LOOP", "START", "DONE", "TBL", "MSG", "BUF", "NEXT", "EXIT", "DATA1", "SUB1", "SUB2", "PT", "Q9", "ZED", "K", "M@1", "CNT",
              "HERE", "FOO", "BAR7", "W00", "G", "H2", "JJ", "END1", "INIT", "TEMP", "VAL", "ARR", "PTR"]
FCC_CHARS = "ABCDEFGHIJKLMNOPQRSTUVWXYZabcdefghijklmnopqrstuvwxyz0123456789"


def gen_program(rnd, n, features=None, origin=None, short_reach=6):
    """features: set restricting statement kinds; None = everything in the 'safe' grammar"""
    F = features or {"inh", "imm", "mem", "memlbl", "immlbl", "idx", "idxconst", "idxneg", "rel", "lrel", "pcr", "data", "equ", "stack",
                     "expr", "extind", "datalbl", "idxlbl"}
    nlabels = max(1, min(len(LABEL_POOL), n // 3 + 1))
    names = rnd.sample(LABEL_POOL, nlabels)
    equs = []
    if "equ" in F:
        for k in range(rnd.randrange(0, 4)):
            equs.append("C%d" % k)
    stmts = []
    label_at = {}
    free = list(names)
    rnd.shuffle(free)
    for i in range(n):
        lab = ""
        if free and rnd.random() < 0.35:
            lab = free.pop()
            label_at[lab] = i
        stmts.append({"label": lab, "mn": None, "op": "", "kind": None, "refs": [], "abs": False, "comment": ""})
    if not label_at:
        lab = free.pop()
        stmts[0]["label"] = lab
        label_at[lab] = 0
    defined = list(label_at)

    def near(i):
        c = [l for l, j in label_at.items() if abs(j - i) <= short_reach]
        return rnd.choice(c) if c else None

    kinds = []
    for k, w in (("inh", 3), ("imm", 3), ("mem", 2), ("memlbl", 3), ("immlbl", 2), ("idx", 3), ("idxconst", 3), ("idxneg", 1),
                 ("rel", 3), ("lrel", 2), ("pcr", 2), ("data", 3), ("datalbl", 1), ("idxlbl", 1), ("stack", 1), ("expr", 2), ("extind", 1), ("equuse", 2 if equs else 0)):
        if k in F or (k == "equuse" and "equ" in F):
            kinds += [k] * w
    for i, s in enumerate(stmts):
        k = rnd.choice(kinds)
        L = rnd.choice(defined)
        if k == "rel":
            t = near(i)
            if t is None:
                k = "lrel"
            else:
                s.update(mn=rnd.choice(SHORT), op="{%s}" % t, refs=[t], kind="rel")
                continue
        if k == "inh":
            s.update(mn=rnd.choice(INH), kind="inh")
        elif k == "imm":
            if rnd.random() < 0.5:
                s.update(mn=rnd.choice(IMM8), op="#" + rnd.choice(["%d", "$%02X"]) % rnd.randrange(256), kind="imm8")
            else:
                s.update(mn=rnd.choice(IMM16), op="#" + rnd.choice(["%d", "$%04X"]) % rnd.randrange(65536), kind="imm16")
        elif k == "mem":
            v = rnd.choice([rnd.randrange(256, 65536), rnd.randrange(0x100, 0x200), 0xFFFF, 0x100])
            s.update(mn=rnd.choice(MEM8 + MEM16 + JUMP), op="$%04X" % v, kind="mem")
        elif k == "memlbl":
            s.update(mn=rnd.choice(MEM8 + MEM16 + JUMP), op="{%s}" % L, refs=[L], abs=True, kind="memlbl")
        elif k == "immlbl":
            s.update(mn=rnd.choice(IMM16), op="#{%s}" % L, refs=[L], abs=True, kind="immlbl")
        elif k == "expr":
            sign = rnd.choice("+-")
            nn = rnd.randrange(1, 9)
            if rnd.random() < 0.5:
                s.update(mn=rnd.choice(JUMP + MEM16 + MEM8), op="{%s}%s%d" % (L, sign, nn), refs=[L], abs=True, kind="expr")
            else:
                s.update(mn=rnd.choice(IMM16), op="#{%s}%s%d" % (L, sign, nn), refs=[L], abs=True, kind="expr")
        elif k == "extind":
            if rnd.random() < 0.5:
                s.update(mn=rnd.choice(MEM8 + MEM16 + JUMP), op="[{%s}]" % L, refs=[L], abs=True, kind="extind")
            else:
                s.update(mn=rnd.choice(MEM8 + MEM16 + JUMP), op="[$%04X]" % rnd.randrange(256, 65536), kind="extind")
        elif k == "idx":
            reg = rnd.choice(REGS)
            t = rnd.choice([",%s", ",%s+", ",%s++", ",-%s", ",--%s", "A,%s", "B,%s", "D,%s", "[,%s]", "[,%s++]", "[,--%s]", "[A,%s]", "[B,%s]", "[D,%s]"])
            s.update(mn=rnd.choice(MEM8 + MEM16 + JUMP + LEA), op=t % reg, kind="idx")
        elif k == "idxconst":
            reg = rnd.choice(REGS)
            v = rnd.choice([rnd.randrange(1, 16), rnd.randrange(16, 128), rnd.randrange(128, 256), rnd.randrange(256, 32768), 15, 16, 127, 128])
            t = rnd.choice(["%d,%s", "[%d,%s]"])
            s.update(mn=rnd.choice(MEM8 + MEM16 + JUMP + LEA), op=t % (v, reg), kind="idxconst")
        elif k == "idxneg":
            reg = rnd.choice(REGS)
            v = -rnd.choice([rnd.randrange(1, 17), rnd.randrange(17, 129), rnd.randrange(129, 32769), 16, 17, 128, 129])
            t = rnd.choice(["%d,%s", "[%d,%s]"])
            s.update(mn=rnd.choice(MEM8 + MEM16 + JUMP + LEA), op=t % (v, reg), kind="idxneg")
        elif k == "lrel":
            s.update(mn=rnd.choice(LONG), op="{%s}" % L, refs=[L], kind="lrel")
        elif k == "pcr":
            t = rnd.choice(["{%s},PCR", "[{%s},PCR]"])
            s.update(mn=rnd.choice(MEM8 + MEM16 + LEA + JUMP), op=t % L, refs=[L], kind="pcr")
        elif k == "stack":
            if rnd.random() < 0.5:
                regs = rnd.sample(["A", "B", "X", "Y", "CC", "DP", "PC"], rnd.randrange(1, 5))
                s.update(mn=rnd.choice(["PSHS", "PULS", "PSHU", "PULU"]), op=",".join(regs), kind="stack")
            else:
                pair = rnd.choice([("A", "B"), ("X", "Y"), ("D", "X"), ("U", "S"), ("A", "CC"), ("B", "DP"), ("X", "PC")])
                s.update(mn=rnd.choice(["TFR", "EXG"]), op="%s,%s" % pair, kind="stack")
        elif k == "equuse":
            c = rnd.choice(equs)
            t = rnd.choice(["#{%s}", "{%s},X", "[{%s},Y]", "{%s}"])
            mn = rnd.choice(IMM8 if t.startswith("#") else MEM8)
            s.update(mn=mn, op=t % c, refs=[c], kind="equuse")
        elif k == "idxlbl":
            # a label (or label+-n) as the constant offset of a pointer register: an absolute reference in the 16-bit offset field
            reg = rnd.choice(REGS)
            t = rnd.choice(["{%s},%s", "[{%s},%s]", "{%s}+%d,%s" % ("%s", rnd.randrange(1, 9), "%s"), "{%s}-%d,%s" % ("%s", rnd.randrange(1, 9), "%s")])
            s.update(mn=rnd.choice(MEM8 + MEM16 + LEA), op=t % (L, reg), refs=[L], abs=True, kind="idxlbl")
        elif k == "datalbl":
            # address tables: FDB lists whose elements are labels, label+-n, EQU constants and numbers (wordmask: which words move with the origin)
            items, mask, refs = [], [], []
            for _ in range(rnd.choice([1, 1, 2, 3, 5])):
                q = rnd.random()
                if q < 0.5:
                    l2 = rnd.choice(defined)
                    items.append("{%s}" % l2)
                    mask.append(True)
                    refs.append(l2)
                elif q < 0.7:
                    l2 = rnd.choice(defined)
                    items.append("{%s}%s%d" % (l2, rnd.choice("+-"), rnd.randrange(1, 9)))
                    mask.append(True)
                    refs.append(l2)
                elif q < 0.8 and equs:
                    c = rnd.choice(equs)
                    items.append("{%s}" % c)
                    mask.append(False)
                    refs.append(c)
                else:
                    items.append(rnd.choice(["%d", "$%04X"]) % rnd.randrange(65536))
                    mask.append(False)
            s.update(mn="FDB", op=",".join(items), refs=refs, kind="fdblbl", wordmask=mask)
        elif k == "data":
            r = rnd.random()
            if r < 0.3:
                s.update(mn="FCB", op=",".join(rnd.choice(["%d", "$%02X"]) % rnd.randrange(256) for _ in range(rnd.randrange(1, 9))), kind="fcb")
            elif r < 0.55:
                s.update(mn="FDB", op=",".join(rnd.choice(["%d", "$%04X"]) % rnd.randrange(65536) for _ in range(rnd.randrange(1, 6))), kind="fdb")
            elif r < 0.8:
                txt = "".join(rnd.choice(FCC_CHARS) for _ in range(rnd.randrange(1, 20)))
                s.update(mn="FCC", op='"%s"' % txt, kind="fcc")
            else:
                s.update(mn="RMB", op=str(rnd.choice([1, 2, 3, 10, rnd.randrange(1, 300)])), kind="rmb")
    # statements that share an address: labelled zero-size directives, and optionally a label on the ORG line
    if "samelabel" in F or features is None:
        for z in range(rnd.choice([0, 0, 1, 2])):
            pos = rnd.randrange(0, len(stmts) + 1)
            stmts.insert(pos, {"label": "ZS%d" % z, "mn": "SETDP", "op": "0", "kind": "zero", "refs": [], "abs": False, "comment": ""})
    prog = {"origin": origin, "stmts": stmts, "equs": [], "name": None, "end": None,
            "org_label": "ORGL" if (origin is not None and rnd.random() < 0.25 and features is None) else ""}
    for c in equs:
        v = rnd.choice([rnd.randrange(0, 256), rnd.randrange(1, 16)])
        prog["equs"].append({"label": c, "mn": "EQU", "op": rnd.choice(["$%02X", "%d"]) % v, "kind": "equ", "refs": [], "abs": False,
                             "comment": "", "value": v, "pos": rnd.choice(["top", "bottom"])})
    return prog


def render(prog, ws=" ", rename=None, mncase=str.upper, comments=None, suffix=None, origin="keep", ws_fn=None):
    """-> list of source lines ('\\n' terminated)"""
    rename = rename or (lambda x: x)
    org = prog["origin"] if origin == "keep" else origin
    lines = []
    idx = [0]

    def w():
        return ws_fn() if ws_fn else ws

    def emit(label, mn, op, comment=""):
        c = comment
        if comments is not None:
            c = comments(idx[0])
        idx[0] += 1
        line = "%s%s%s" % (label, w(), mncase(mn))
        if op != "" or c:
            line += w() + op
        if c:
            line += w() + ";" + c
        lines.append(line + "\n")

    def subst(t):
        return re.sub(r"\{([^}]+)\}", lambda m: rename(m.group(1)), t)

    if prog.get("name"):
        emit("", "NAM", prog["name"])
    if org is not None:
        emit(rename(prog.get("org_label") or "") if prog.get("org_label") else "", "ORG", "$%04X" % org)
    for e in prog["equs"]:
        if e["pos"] == "top":
            emit(rename(e["label"]), "EQU", e["op"])
    for s in prog["stmts"]:
        emit(rename(s["label"]) if s["label"] else "", s["mn"], subst(s["op"]), s.get("comment", ""))
    for e in prog["equs"]:
        if e["pos"] == "bottom":
            emit(rename(e["label"]), "EQU", e["op"])
    if suffix:
        for s in suffix:
            emit(rename(s["label"]) if s["label"] else "", s["mn"], subst(s["op"]), "")
    if prog.get("end") is not None:
        emit("", "END", subst(prog["end"]))
    return lines
