"""Fresh-process fingerprint worker for C17: reads {"programs": [[lines]...], "order": [...]} on stdin, assembles each program in
the given order in this (fresh) interpreter and prints {"fps": {index: fingerprint}}.  No monitors are installed here on purpose:
the fresh process is the unmonitored control."""
import sys, os, json, hashlib

REPO = os.environ.get("VERIF_REPO", "/repo")
sys.path.insert(0, REPO)


def fingerprint(lines):
    from cocoasm.program import Program
    from cocoasm.exceptions import ParseError, TranslationError
    p = Program()
    try:
        p.process(lines)
    except (ParseError, TranslationError) as e:
        st = getattr(e, "statement", None)
        try:
            st = st if isinstance(st, str) else str(st)
        except Exception:
            st = "<unprintable>"
        return {"outcome": "diag", "exc": type(e).__name__, "msg": str(getattr(e, "value", "")), "stmt": st}
    except RecursionError:
        return {"outcome": "internal", "exc": "RecursionError"}
    except Exception as e:
        return {"outcome": "internal", "exc": type(e).__name__, "msg": str(e)[:200]}
    try:
        return {"outcome": "ok", "image": bytes(p.get_binary_array()).hex(), "listing": p.get_statements(), "symbols": p.get_symbol_table(),
                "origin": None if p.origin.is_none() else p.origin.int, "name": p.name}
    except Exception as e:
        return {"outcome": "internal-post", "exc": type(e).__name__, "msg": str(e)[:200]}


def digest(fp):
    return hashlib.sha256(json.dumps(fp, sort_keys=True).encode()).hexdigest()[:20]


if __name__ == "__main__":
    req = json.load(sys.stdin)
    out = {}
    for i in req["order"]:
        out[str(i)] = fingerprint(list(req["programs"][i]))
    json.dump({"fps": out, "hashseed": os.environ.get("PYTHONHASHSEED")}, sys.stdout)
