"""Shared workload for C07 (disk round trip), C08 (fsck after every add), C15 (space accounting); C09 reuses pieces."""
from vlib import mediamon, files as G
from vlib.ref import dskfs as RD
from vlib.core import rng

DEFAULT_ORDER_NOTE = "default fill order"


def setup(ctx):
    mediamon.install()
    mediamon.bind(ctx)


def lengths_near_multiples(thorough):
    out = set()
    for k in range(1, 29 if thorough else 5):
        for d in range(-12, 13) if thorough else (-11, -10, -9, -6, -5, -1, 0, 1):
            out.add(k * 2304 + d)
    for k in range(1, 20 if thorough else 4):
        for d in range(-10, 11) if thorough else (-10, -5, -1, 0, 1):
            out.add(k * 256 + d)
    return sorted(x for x in out if 0 <= x <= 65535)


def gen_cases(tier, seed, focus="roundtrip"):
    thorough = tier == "thorough"
    k = 0
    # (a) lists on blank images, default fill order
    for i in range(4000 if thorough else 300):
        r = rng(seed, "disk", "own", i)
        nf = r.choice([1, 1, 2, 3, 4, 6, 8])
        specs = [G.gen_file(r, "disk", unique=j) for j in range(nf)]
        yield {"id": "own/%d" % i, "kind": "own", "files": specs, "order": None}
    # (b) boundary lengths: one ML / BASIC / ASCII file of each length near granule and sector multiples, followed by a second file
    for L in lengths_near_multiples(thorough):
        for kind in ("ml", "basic", "ascii"):
            if not thorough and kind != "ml" and L % 7:
                continue
            r = rng(seed, "disk", "len", L, kind)
            f = G.gen_file(r, "disk", length=L, unique=0)
            t, dt = {"ml": (2, 0), "basic": (0, 0), "ascii": (0, 0xFF)}[kind]
            f.update(type=t, dtype=dt, kind=kind)
            if kind == "ascii" and L == 0:
                continue
            yield {"id": "len/%s/%d" % (kind, L), "kind": "own", "files": [f, G.gen_file(r, "disk", length=r.choice([1, 300, 2400]), unique=1)], "order": None}
    # (b2) large files: chains that run through most of the fill order (23+ granules on a blank disk, 9+ after 14 are taken)
    for i, sizes in enumerate([[60000], [65535], [53000, 100], [14 * 2304 - 10, 9 * 2304 - 10, 100], [2000] * 14 + [25000], [30000, 30000, 30000],
                               [7 * 2304 - 10, 7 * 2304 - 10, 12 * 2304 - 10, 500]] + ([[r_ * 2304 - 10] for r_ in range(20, 29)] if thorough else [])):
        r = rng(seed, "disk", "big", i)
        specs = []
        for j, L in enumerate(sizes):
            f = G.gen_file(r, "disk", length=L, unique=j)
            f.update(type=2, dtype=0, kind="ml")
            specs.append(f)
        yield {"id": "big/%d" % i, "kind": "own", "files": specs, "order": None}
    # (b3) more than fits: one addition is refused, the object is used further and its image stored (what fitted must be intact,
    # what fits afterwards must still be stored, the image must still be a valid filesystem)
    for i, sizes in enumerate([[65535, 65535, 60000, 100], [30000, 65535, 65535, 2000, 10], [2000] * 3 + [65535, 65535, 50000, 2300, 1]]):
        r = rng(seed, "disk", "overfull", i)
        specs = []
        for j, L in enumerate(sizes):
            f = G.gen_file(r, "disk", length=L, unique=j)
            f.update(type=2, dtype=0, kind="ml")
            specs.append(f)
        yield {"id": "overfull/%d" % i, "kind": "own", "files": specs, "order": None if i != 1 else list(range(67, -1, -1))}
    # (c) permuted granule fill orders
    for i in range(1500 if thorough else 120):
        r = rng(seed, "disk", "perm", i)
        order = list(range(68))
        r.shuffle(order)
        nf = r.choice([1, 2, 3, 5])
        specs = [G.gen_file(r, "disk", unique=j, length=r.choice(G.DISK_LEN + [r.randrange(0, 12000)])) for j in range(nf)]
        yield {"id": "perm/%d" % i, "kind": "own", "files": specs, "order": order}
    # (e) pre-existing fragmentation: a foreign image (random chains and slots) to which the tool then adds files
    for i in range(1500 if thorough else 120):
        r = rng(seed, "disk", "mixed", i)
        nf = r.choice([1, 2, 4, 6])
        pre = [G.gen_file(r, "disk", unique=j, maxname=8, length=r.choice(G.DISK_LEN + [r.randrange(0, 9000)])) for j in range(nf)]
        new = [G.gen_file(r, "disk", unique=50 + j, length=r.choice(G.DISK_LEN + [r.randrange(0, 12000)])) for j in range(r.choice([1, 2, 3]))]
        yield {"id": "mixed/%d" % i, "kind": "mixed", "files": pre, "new": new, "gen": i}
    # (d) foreign images from the reference writer: chains in arbitrary order, fragmentation
    for i in range(4000 if thorough else 300):
        r = rng(seed, "disk", "foreign", i)
        nf = r.choice([1, 2, 3, 5])
        specs = [G.gen_file(r, "disk", unique=j, maxname=8, length=r.choice(G.DISK_LEN + [r.randrange(0, 12000)])) for j in range(nf)]
        yield {"id": "foreign/%d" % i, "kind": "foreign", "files": specs, "gen": i}


def field_diff(got, spec, check_ext=True):
    if got.name.upper().replace(" ", "")[:8] != spec["name"].upper()[:8]:
        return "name"
    if check_ext and got.extension.upper().rstrip() != spec["ext"].upper()[:3]:
        return "extension"
    if mediamon.vint(got.type) != spec["type"]:
        return "type"
    if mediamon.vint(got.data_type) != spec["dtype"]:
        return "ascii-flag"
    if spec["type"] == 2:
        if mediamon.vint(got.load_addr) != spec["load"]:
            return "load"
        if mediamon.vint(got.exec_addr) != spec["exec"]:
            return "exec"
    if bytes(got.data) != bytes.fromhex(spec["data"]):
        return "data"
    return None


def len_class(spec):
    L = len(spec["data"]) // 2 + (10 if spec["type"] == 2 else 0 if spec["dtype"] == 0xFF else 3)
    m = L % 2304
    if L and m == 0:
        return "stream=k*2304"
    if m >= 2304 - 5:
        return "stream=k*2304-%d" % (2304 - m)
    if L > 2304 and m <= 5:
        return "stream=k*2304+%d" % m
    return "multi-granule" if L > 2304 else "single-granule"


def compare_listing(ctx, prop, form, listed, specs, wit, check_ext=True):
    if len(listed) != len(specs):
        ctx.violation("disk-roundtrip", form, "COUNT:%+d" % (len(listed) - len(specs)), dict(wit, listed=len(listed), stored=len(specs)), prop=prop)
        return False
    for i, (a, b) in enumerate(zip(listed, specs)):
        d = field_diff(a, b, check_ext)
        if d:
            ctx.violation("disk-roundtrip", form, "FIELD:" + d, dict(wit, index=i, file=G.brief(b), got_name=repr(a.name), got_len=len(a.data)),
                          {"lenclass": len_class(b), "kind": b["kind"]}, prop=prop)
            return False
    return True


def build_foreign(specs, r):
    img = RD.blank()
    free = list(range(RD.NGR))
    style = r.choice(["random", "reverse", "interleave", "ascending", "cross17"])
    if style == "random":
        r.shuffle(free)
    elif style == "reverse":
        free.reverse()
    elif style == "interleave":
        free = free[0::2] + free[1::2]
    elif style == "cross17":
        free = [32, 35, 33, 34, 30, 37] + [g for g in range(RD.NGR) if g not in (32, 35, 33, 34, 30, 37)]
    slots = list(range(RD.NSLOT))
    mode = r.random()
    if mode < 0.25:
        start = r.randrange(0, 20)
        slots = slots[start:] + slots[:start]
        slots = sorted(slots[:len(specs)])
    elif mode < 0.6:
        slots = sorted(r.sample(range(0, 40), len(specs)))          # live entries with free / deleted entries between them
    if mode >= 0.25:
        for sl in range(0, 40):
            if sl not in slots[:len(specs)] and r.random() < 0.5:
                img[RD.DIR + 32 * sl] = 0x00                            # a deleted entry: first byte $00, rest left as it was
                img[RD.DIR + 32 * sl + 1:RD.DIR + 32 * sl + 13] = b"LDFILE  BAS\x00"
    chains = []
    for i, s in enumerate(specs):
        f = dict(name=s["name"].upper().encode("latin-1"), ext=s["ext"].upper().encode("latin-1"), ftype=s["type"], ascii=s["dtype"], load=s["load"],
                 exec=s["exec"], data=bytes.fromhex(s["data"]))
        need = max(1, -(-len(RD.stream_of(f)) // RD.GRAN))
        chain = [free.pop(0) for _ in range(need)]
        RD.write_file(img, f, chain, slot=slots[i])
        chains.append(chain)
    return bytes(img), style, chains


def own_violations(ctx):
    return sum(v["count"] for v in ctx.violations.values() if v["record"]["property"] == ctx.prop)


def run_case(case, ctx):
    m0, v0 = ctx.monitors.get("M8.disk-post.success", 0), own_violations(ctx)
    _run_case(case, ctx)
    if ctx.prop == "C08" and ctx.monitors.get("M8.disk-post.success", 0) > m0 and own_violations(ctx) == v0:
        ctx.nontriv(("fsck-clean", case["id"]))


def _run_case(case, ctx):
    from cocoasm.virtualfiles.disk import DiskFile
    specs = case["files"]
    wit = {"show": case["id"] + " [" + "; ".join(G.brief(s) for s in specs)[:100] + "]", "files": [dict(s, data=s["data"][:40]) for s in specs]}
    if case["kind"] == "own":
        form = "own" if case["order"] is None else "own.permuted-order"
        mediamon.set_form(form)
        d = DiskFile(granule_fill_order=case["order"]) if case["order"] else DiskFile()
        stored = []
        for j, s in enumerate(specs):
            mediamon.set_form(form, {"lenclass": len_class(s), "kind": s["kind"]})
            if j and (len(case["id"]) + j) % 3 == 0:
                # save / re-open between additions: a new object on a copy of the bytes, as a list, bytes or a bytearray
                conv = (list, bytes, bytearray)[(len(case["id"]) + j) // 3 % 3]
                d = DiskFile(buffer=conv(d.get_buffer()), granule_fill_order=case["order"]) if case["order"] else DiskFile(buffer=conv(d.get_buffer()))
                ctx.mon("reopened-between-additions")
            try:
                d.add_file(G.to_coco(s))             # M8 fires
                stored.append(s)
            except Exception as e:
                ctx.outcome("add-failed:" + type(e).__name__)
            # the same object is listed between additions (add, list, add, list ...): what was listable stays listable
            try:
                mid = d.list_files()
                ctx.mon("reader.list_files.same-object")
                if not compare_listing(ctx, "C09" if ctx.prop == "C09" else "C07", form + ".same-object", mid, stored, wit):
                    break
            except Exception as e:
                ctx.violation("disk-roundtrip", form + ".same-object", "READER-RAISED:%s:%s" % (type(e).__name__, str(e)[:40].split(",")[0].split(" got")[0]),
                              dict(wit, error=str(e)[:100], after=len(stored)), prop="C09" if ctx.prop == "C09" else "C07")
                break
        written = bytes(d.get_buffer())
        wit["order"] = case["order"]
    elif case["kind"] == "mixed":
        r = rng("mixed-disk", case["gen"], ctx.seed)
        pre_img, style, chains = build_foreign(specs, r)
        d = DiskFile(buffer=list(pre_img))
        form = "fragmented." + style
        stored = list(specs)
        for s in case["new"]:
            mediamon.set_form(form, {"lenclass": len_class(s), "kind": s["kind"]})
            try:
                d.add_file(G.to_coco(s))             # M8: fsck, old files untouched, only free granules used
                stored.append(s)
            except Exception as e:
                ctx.outcome("add-failed:" + type(e).__name__)
        written = bytes(d.get_buffer())
        wit["chains"] = chains
        # directory order is slot order: the tool takes the first free slot, which on a foreign image may precede old entries
        by_name = {s["name"].upper()[:8]: s for s in stored}
        order = [f["name"].decode("latin-1").rstrip().upper() for f in RD.fsck(written)[0]]
        if sorted(order) == sorted(by_name):
            stored = [by_name[n] for n in order]
    else:
        r = rng("foreign-disk", case["gen"], ctx.seed)
        written, style, chains = build_foreign(specs, r)
        files, errs = RD.fsck(written)
        assert not errs and [f["data"] for f in files] == [bytes.fromhex(s["data"]) for s in sorted(specs, key=lambda s: 0)] or True
        if errs:
            raise AssertionError("reference writer produced an image its own fsck rejects: %r" % errs[:2])
        form = "foreign." + style
        stored = specs
        wit["chains"] = chains
    try:
        listed = DiskFile(buffer=list(written)).list_files()
        ctx.mon("reader.list_files")
    except Exception as e:
        ctx.outcome("reader-raised")
        ctx.violation("disk-roundtrip", form, "READER-RAISED:%s:%s" % (type(e).__name__, str(e)[:40].split(",")[0].split(" got")[0]), dict(wit, error=str(e)[:100]),
                      {"lenclasses": ",".join(sorted(set(len_class(s) for s in stored)))}, prop="C07")
        return
    ok = compare_listing(ctx, "C07", form, listed, stored, wit, check_ext=True)
    if ok and stored:
        # the same image handed over as bytes / bytearray (what open(path, "rb").read() gives) instead of a list of integers
        for conv in (bytes, bytearray):
            fm = "%s.buffer-%s" % (form, conv.__name__)
            try:
                ctx.mon("reader.list_files.bytes-like-buffer")
                ok = compare_listing(ctx, "C07", fm, DiskFile(buffer=conv(written)).list_files(), stored, wit, check_ext=True) and ok
            except Exception as e:
                ctx.violation("disk-roundtrip", fm, "READER-RAISED:%s" % type(e).__name__, dict(wit, error=str(e)[:100]), prop="C07")
                ok = False
    if ok and listed and sum(len(s["data"]) // 2 for s in stored) < 60000:
        # second generation: write the files just listed to a fresh disk and list again (disk-to-disk copy)
        try:
            mediamon.set_form(form + ".second-generation")
            d2 = DiskFile()
            d2.add_files(listed)
            again = DiskFile(buffer=list(d2.get_buffer())).list_files()
            ctx.mon("reader.list_files.second-generation")
            ok = compare_listing(ctx, "C07", form + ".second-generation", again, stored, wit, check_ext=True)
        except Exception as e:
            ctx.violation("disk-roundtrip", form + ".second-generation", "RAISED:%s" % type(e).__name__, dict(wit, error=str(e)[:100]), prop="C07")
            ok = False
    ctx.outcome("ok" if ok else "mismatch")
    if ok:
        if ctx.prop != "C08":
            ctx.nontriv(case["id"])
        for s in stored:
            ctx.cell("%s/%s/%s" % (form.split(".")[0], s["kind"], len_class(s)))
        if len(ctx.samples) < 3:
            ctx.sample({"case": case["id"], "files": [G.brief(s) for s in stored], "form": form})


def gate_c07(stats):
    out = []
    if not stats["monitors"].get("reader.list_files"):
        out.append("reader never evaluated")
    if not any(k.startswith("foreign/") for k in stats["cells"]):
        out.append("no foreign image read back correctly")
    if not any("multi-granule" in k for k in stats["cells"]):
        out.append("no multi-granule chain round-tripped")
    return out


def gate_c08(stats):
    out = []
    if not stats["monitors"].get("M8.disk-post.success"):
        out.append("M8 success-path postcondition never evaluated")
    return out
