"""
M7 tape-post  : postcondition on the real CassetteFile.add_file - the bytes appended by the call parse (R4, strict)
                as exactly one file equal to the CoCoFile argument; bytes before the old length untouched.
M8 disk-post  : history invariant on the real DiskFile.add_file - success: fsck clean (C08), old files identical and
                in order (C09), exactly one new entry equal to the argument (C07), granules newly used == n(len) and
                were free, one slot consumed (C15); failure: only when n > F or no slot (C15).
Monitors record and return: the workload continues after a violation (halt_on_error=0 discipline).
"""
import os, sys
from vlib.ref import tape as RT, dskfs as RD

REPO = os.environ.get("VERIF_REPO", "/repo")
if REPO not in sys.path:
    sys.path.insert(0, REPO)

STATE = {"ctx": None, "form": "unset", "traits": {}, "installed": False}


def bind(ctx):
    STATE["ctx"] = ctx


def set_form(form, traits=None):
    STATE["form"] = form
    STATE["traits"] = traits or {}


def _v(prop, check, symptom, witness, form=None):
    ctx = STATE["ctx"]
    if ctx is not None:
        ctx.violation(check, form or STATE["form"], symptom, witness, STATE["traits"], prop=prop)


def vint(v):
    try:
        if v is None or v.is_none():
            return 0
    except AttributeError:
        return int(v)
    return v.int


def addr16(v):
    """what high_byte/low_byte of a 16-bit value must be"""
    return vint(v) & 0xFFFF


def name8(name):
    return name[:8].ljust(8).upper().encode("latin-1", "replace")


def describe(cf):
    return {"name": cf.name, "ext": cf.extension, "type": vint(cf.type), "dtype": vint(cf.data_type), "load": vint(cf.load_addr),
            "exec": vint(cf.exec_addr), "len": len(cf.data), "head": bytes(cf.data[:12]).hex()}


def install():
    if STATE["installed"]:
        return
    STATE["installed"] = True
    from cocoasm.virtualfiles.cassette import CassetteFile
    from cocoasm.virtualfiles.disk import DiskFile

    orig_cas_add = CassetteFile.add_file

    def monitored_cas_add(self, coco_file):
        n0 = len(self.buffer)
        before = bytes(self.buffer)
        r = orig_cas_add(self, coco_file)
        ctx = STATE["ctx"]
        if ctx is not None:
            ctx.mon("M7.tape-post")
        try:
            after = bytes(self.buffer)
        except ValueError:
            # the writer put something that is not a byte into its buffer (a name character above 255): the monitor must not turn
            # that into an exception of its own - whatever the tool does with such a buffer is what the workload observes
            if ctx is not None:
                ctx.mon("M7.unmonitorable-non-byte-buffer")
            return r
        w = {"file": describe(coco_file), "show": "add_file(%s, %d bytes)" % (coco_file.name, len(coco_file.data))}
        if after[:n0] != before:
            _v("C09", "tape-append", "EARLIER-BYTES-CHANGED", w)
        app = after[n0:]
        try:
            files = RT.parse(app)
        except RT.TapeError as e:
            _v("C14", "tape-wellformed", "MALFORMED:" + e.reason.split(" (")[0], dict(w, error=str(e), region=app[max(0, e.offset - 8):e.offset + 8].hex()))
            return r
        if len(files) != 1:
            _v("C14", "tape-wellformed", "APPENDED-%d-FILES" % len(files), w)
            return r
        f = files[0]
        exp = dict(name=name8(coco_file.name), ftype=vint(coco_file.type) & 255, dtype=vint(coco_file.data_type) & 255,
                   load=addr16(coco_file.load_addr), exec=addr16(coco_file.exec_addr), data=bytes(coco_file.data))
        for k, v in exp.items():
            got = f[k]
            if k == "name":
                got = got.upper()
            if got != v:
                _v("C14", "tape-wellformed", "FIELD:" + k, dict(w, got=repr(got)[:80], want=repr(v)[:80]))
                break
        if any(b > 255 for b in f["blocks"]) or (f["blocks"] and sum(f["blocks"]) != len(coco_file.data)):
            _v("C14", "tape-wellformed", "BLOCKING", dict(w, blocks=f["blocks"][:10]))
        return r

    CassetteFile.add_file = monitored_cas_add

    orig_dsk_add = DiskFile.add_file

    def monitored_dsk_add(self, coco_file):
        ctx = STATE["ctx"]
        pre = bytes(self.buffer)
        cache = self.__dict__.get("_v_cache")
        if cache is not None and cache[0] == pre:
            pre_files, pre_errs = cache[1], cache[2]
        else:
            pre_files, pre_errs = RD.fsck(pre)
        if len(pre) != RD.IMAGE:
            return orig_dsk_add(self, coco_file)
        F = RD.free_granules(pre)
        S = RD.free_slots(pre)
        t = vint(coco_file.type)
        dt = vint(coco_file.data_type)
        overhead = 10 if t == 2 else (0 if dt == 0xFF else 3)
        L = len(coco_file.data) + overhead
        nmin = max(1, -(-L // RD.GRAN))
        nalt = nmin + 1 if (L % RD.GRAN == 0 and L > 0) else nmin
        if L == 0:
            nalt = 1
        w = {"file": describe(coco_file), "free_granules": len(F), "free_slots": len(S), "stream_len": L,
             "show": "add_file(%s, stream %d bytes) with %d free granules, %d free slots" % (coco_file.name, L, len(F), len(S))}
        try:
            r = orig_dsk_add(self, coco_file)
        except Exception as e:
            if ctx is not None:
                ctx.mon("M8.disk-post.failure")
            fits = nalt <= len(F) and len(S) > 0     # at an exact multiple the tool may need one more granule: F == nmin is a don't-care
            if fits and "\0" in str(coco_file.name):
                pass            # a name holding NUL characters may be refused; if it is stored the accounting below applies
            elif fits:
                _v("C15", "disk-accounting", "FAILED-THOUGH-FITS:%s" % type(e).__name__, dict(w, error=str(e)[:120], needed=nmin))
            elif ctx is not None and (nmin > len(F) or not S):
                ctx.cell("fail-clean/" + ("no-slot" if not S else "no-granules"))
            # the object lives on after a refused addition (add_files stops, the caller may store what did fit): its image must still
            # be a valid filesystem - in particular no provisional allocation marks may stay behind
            if not pre_errs:
                try:
                    post_f = bytes(self.buffer)
                except ValueError:
                    post_f = pre
                if post_f != pre:
                    errs_f = RD.fsck(post_f)[1]
                    self.__dict__["_v_cache"] = None
                    if len(RD.free_granules(post_f)) != len(F) or len(RD.free_slots(post_f)) != len(S):
                        _v("C15", "disk-accounting", "REFUSED-ADD-CHANGED-FREE-SPACE", dict(w, free_granules_after=len(RD.free_granules(post_f)),
                                                                                          free_slots_after=len(RD.free_slots(post_f)), error=str(e)[:80]))
                    if errs_f:
                        _v("C08", "fsck", "AFTER-REFUSED-ADD:" + errs_f[0][0], dict(w, fsck=[list(map(str, x)) for x in errs_f[:4]], error=str(e)[:80]))
            raise
        if ctx is not None:
            ctx.mon("M8.disk-post.success")
        try:
            post = bytes(self.buffer)
        except ValueError:
            if ctx is not None:
                ctx.mon("M8.unmonitorable-non-byte-buffer")
            self.__dict__["_v_cache"] = None
            return r
        files, errs = RD.fsck(post)
        self.__dict__["_v_cache"] = (post, files, errs)
        if pre_errs:
            return r        # the image was already inconsistent before this call: judged when it became so
        # C08 structural validity
        for e in errs[:3]:
            _v("C08", "fsck", "FSCK:" + e[0], dict(w, fsck=[list(map(str, x)) for x in errs[:4]]))
        # C15 accounting
        Fp = RD.free_granules(post)
        used = sorted(set(F) - set(Fp))
        stolen = sorted(set(g for g in range(RD.NGR) if post[RD.FAT + g] != pre[RD.FAT + g]) - set(F))
        if nmin > len(F) or not S:
            _v("C15", "disk-accounting", "SUCCEEDED-THOUGH-FULL", dict(w, needed=nmin))
        if len(used) not in (nmin, nalt):
            _v("C15", "disk-accounting", "GRANULES-USED:%+d" % (len(used) - nmin), dict(w, used=used, needed=nmin))
        if stolen:
            _v("C15", "disk-accounting", "NON-FREE-GRANULE-CHANGED", dict(w, granules=stolen))
        Sp = RD.free_slots(post)
        if len(S) - len(Sp) != 1:
            _v("C15", "disk-accounting", "SLOTS-CONSUMED:%d" % (len(S) - len(Sp)), w)
        # C09 old files untouched, same order ; C07 new entry equals the argument
        old = [f for f in files if f["slot"] in set(x["slot"] for x in pre_files)]
        if len(old) != len(pre_files):
            _v("C09", "disk-append", "OLD-FILE-LOST", w)
        else:
            for a, b in zip(pre_files, old):
                if a.get("broken") or b.get("broken"):
                    continue
                if (a["name"], a["ext"], a["ftype"], a["ascii"], a.get("stream")) != (b["name"], b["ext"], b["ftype"], b["ascii"], b.get("stream")):
                    _v("C09", "disk-append", "OLD-FILE-CHANGED", dict(w, old=a["name"].decode("latin-1")))
                    break
        new = [f for f in files if f["slot"] not in set(x["slot"] for x in pre_files)]
        if len(new) != 1:
            _v("C07", "disk-entry", "NEW-ENTRIES:%d" % len(new), w)
        elif not new[0].get("broken") and not errs:
            f = new[0]
            if pre_files and f["slot"] < max(x["slot"] for x in pre_files) and False:
                pass
            exp_name = name8(coco_file.name.replace("\0", " "))
            if f["name"].upper() != exp_name:
                _v("C07", "disk-entry", "FIELD:name", dict(w, got=repr(f["name"]), want=repr(exp_name)))
            elif f["ftype"] != t & 255 or f["ascii"] != dt & 255:
                _v("C07", "disk-entry", "FIELD:type", w)
            elif f.get("data") != bytes(coco_file.data):
                _v("C07", "disk-entry", "FIELD:data", w)
            elif t == 2 and (f.get("load") != addr16(coco_file.load_addr) or f.get("exec") != addr16(coco_file.exec_addr)):
                _v("C07", "disk-entry", "FIELD:addresses", dict(w, got=(f.get("load"), f.get("exec"))))
        return r

    DiskFile.add_file = monitored_dsk_add
