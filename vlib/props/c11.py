"""C11 - the saved image holds the assembled program, at its origin, under its name."""
import os, shutil, tempfile, subprocess
from vlib import mediamon, fsmon, hostcli, asmmon, progs
from vlib.core import rng, REPO

PROPERTY = "C11"
CASE_TIMEOUT = 300
RULE = ("cases = G4 programs (any origin incl. none and below $100, with/without NAM, names of 1-12 letters/digits in either case, "
        "with/without --name, with/without END operand, image sizes small and at 255/256/2294-2304/65535) x output switches --to_bin / "
        "--to_cas / --to_dsk alone and combined. assembler.py runs in-process under the M6 audit hook (quick also 6, thorough 60 real "
        "subprocess runs); the same text is assembled in-process through Program.process as the reference for image/origin/name. "
        "Oracle: BIN file == image; CAS/DSK parsed by the reference parsers R4/R5 must hold exactly one machine-language file with "
        "data == image, load == origin, exec in {origin, END operand address}, name == NAM operand (else --name) compared "
        "case-insensitively after pad/truncate to 8; file_util.py --list output is parsed as a third witness; without any name no "
        "cassette/disk file may be created. distinct_nontrivial = distinct (program, switch set) runs whose outputs were all compared.")
ASSUMPTIONS = ["a program without ORG has origin 0", "R4/R5 reference parsers"]
NAMES = ["A", "ab", "Prog", "HELLO", "MiXeD12", "EIGHTCHR", "NINECHARS", "TENCHARSXX", "twelvechars1", "Z9"]


def setup(ctx):
    mediamon.install()
    mediamon.bind(ctx)
    asmmon.install()
    fsmon.install()
    ctx.tmp = tempfile.mkdtemp(prefix="c11-", dir=os.environ.get("VERIF_WORK"))


def teardown(ctx):
    shutil.rmtree(ctx.tmp, ignore_errors=True)


def gen_cases(tier, seed):
    thorough = tier == "thorough"
    combos = [["bin"], ["cas"], ["dsk"], ["bin", "cas"], ["cas", "dsk"], ["bin", "cas", "dsk"], ["bin", "dsk"]]
    n = 4000 if thorough else 140
    for k in range(n):
        r = rng(seed, "C11", k)
        org = r.choice([None, r.randrange(0, 256), r.randrange(256, 60000), 0x0E00, 0x3F00])
        p = progs.gen_program(r, r.choice([3, 8, 20, 50]), origin=org)
        nam = r.choice(NAMES + [None, None])
        p["name"] = nam
        cli_name = r.choice(NAMES + [None, None])
        outs = r.choice(combos)
        # every naming situation on every output kind in every run, whatever the seed
        if k % 9 == 3:
            nam = p["name"] = None
            cli_name = None
            outs = combos[(k // 9) % len(combos)]
        elif k % 9 == 4:
            nam = p["name"] = NAMES[(k // 9) % len(NAMES)]
            cli_name = None
            outs = combos[(k // 9) % len(combos)]
        elif k % 9 == 5:
            nam = p["name"] = None
            cli_name = NAMES[(k // 9) % len(NAMES)]
            outs = combos[(k // 9) % len(combos)]
        if r.random() < 0.3:
            lab = next((s["label"] for s in p["stmts"] if s["label"]), None)
            p["end"] = "{%s}" % lab if lab and r.random() < 0.6 else ""
        yield {"id": "prog/%d" % k, "lines": progs.render(p), "nam": nam, "cli_name": cli_name, "outs": outs, "sub": k < (60 if thorough else 6)}
    sizes = [0, 1, 255, 256, 2293, 2294, 2295, 2303, 2304, 4598, 4599, 4603, 9206, 65535] if thorough else [0, 255, 256, 2294, 2295, 2304, 65535]
    for L in sizes:
        for org in (0x1000, 0x10, None):
            lines = [" NAM SZ%d\n" % L] + ([" ORG $%X\n" % org] if org is not None else []) + ([" RMB %d\n" % L] if L else [" END\n"])
            if org is not None and org + L > 65536:
                continue
            yield {"id": "size/%d/%s" % (L, org), "lines": lines, "nam": "SZ%d" % L, "cli_name": None, "outs": ["bin", "cas", "dsk"], "sub": False}
    # several ORG directives in front of the first byte: the program is assembled for the last one (wave 10, C11-N)
    for i, orgs in enumerate(([0x1000, 0x2000], [0x3000, 0x0E00], [0x10, 0x20, 0x4000], [0x7000, 0x7000], [0x2000, None, 0x1000])):
        lines = [" NAM ORGS%d\n" % i] + [(" ORG $%X\n" % a) if a is not None else "K EQU 5\n" for a in orgs] + ["START LDA #1\n", " JMP START\n", " RTS\n"]
        yield {"id": "orgs/%d" % i, "lines": lines, "nam": "ORGS%d" % i, "cli_name": None, "outs": ["bin", "cas", "dsk"], "sub": False}
    # all of memory: 65536 bytes from $0000 (a Disk BASIC machine-language header cannot state that length: the disk file may be refused)
    yield {"id": "size/65536/0", "lines": [" NAM FULL\n", " ORG $0\n", " RMB 65535\n", " NOP\n"], "nam": "FULL", "cli_name": None, "outs": ["bin", "cas", "dsk"], "sub": False}


def run_case(case, ctx):
    d = tempfile.mkdtemp(prefix="p-", dir=ctx.tmp)
    return _run(case, ctx, d)


def _run(case, ctx, d):
    try:
        open(os.path.join(d, "p.asm"), "w").write("".join(case["lines"]))
        lines = open(os.path.join(d, "p.asm")).readlines()
        o = asmmon.assemble(lines, keep_program=False)
        if o.outcome != "ok":
            ctx.outcome("not-assemblable:" + o.outcome)
            return
        image = bytes(o.image)
        origin = o.origin if o.origin is not None else 0
        # "at its origin" = where its first byte is assembled for, read from the listing and not from the program's own report
        first = next((st for st in o.stmts if st["bytes"] and st["addr"] is not None), None)
        if first is not None:
            origin = first["addr"]
            ctx.mon("origin-from-listing")
        argv = ["p.asm"]
        for k in case["outs"]:
            argv += ["--to_" + k, "out." + k]
        if case["cli_name"]:
            argv += ["--name", case["cli_name"]]
        mediamon.set_form("c11")
        if case["sub"]:
            p = subprocess.run(["/venv/bin/python", os.path.join(REPO, "assembler.py")] + argv, cwd=d, capture_output=True, text=True, timeout=120,
                               env=dict(os.environ, PYTHONPATH=REPO, PYTHONDONTWRITEBYTECODE="1"))
            code, out = p.returncode, p.stdout + p.stderr
            ctx.mon("subprocess-runs")
        else:
            res = fsmon.run_cli("assembler.py", argv, d)
            code, out = res.code, res.out
            ctx.mon("M6.cli-runs")
            if res.exc:
                ctx.violation("saved-image", "cli", "CLI-TRACEBACK:%s@%s" % (res.exc, res.where), {"show": case["id"] + " " + res.out[-100:]})
                return
        name = case["nam"] or case["cli_name"]
        tr = {"named_by": "NAM" if case["nam"] else ("--name" if case["cli_name"] else "none"), "origin": "none" if o.origin is None else ("<$100" if origin < 256 else ">=$100")}
        wit = {"show": "%s %s -> exit %s %s" % (case["id"], " ".join(argv), code, out.strip().replace("\n", " | ")[-100:]), "source": "".join(lines[:30]),
               "image_len": len(image), "origin": origin, "name": name}
        bad = False
        end_addrs = {origin}
        # END operand address (label) is also acceptable as entry address
        for l in lines:
            parts = l.split()
            if len(parts) >= 2 and parts[0].upper() == "END":
                sy = asmmon.parse_symbols(o.symbols).get(parts[1])
                if sy is not None:
                    end_addrs.add(sy)
        for k in case["outs"]:
            path = os.path.join(d, "out." + k)
            exists = os.path.exists(path)
            if k == "bin":
                if not exists:
                    ctx.violation("saved-image", "bin", "NOT-WRITTEN", wit, tr)
                    bad = True
                elif open(path, "rb").read() != image:
                    ctx.violation("saved-image", "bin", "BINARY-DIFFERS-FROM-IMAGE", dict(wit, got_len=os.path.getsize(path)), tr)
                    bad = True
                continue
            if not name:
                if exists:
                    ctx.violation("saved-image", k, "CREATED-WITHOUT-NAME", wit, tr)
                    bad = True
                else:
                    ctx.cell("no-name-no-file/" + k)
                continue
            if not exists and k == "dsk" and len(image) == 65536 and "nable to save" in out:
                ctx.cell("dsk-refused/65536-bytes")
                continue
            if not exists:
                # a 65535-byte program needs 29 granules: fits. nothing legitimately prevents creation on a fresh path
                ctx.violation("saved-image", k, "NOT-WRITTEN", wit, tr)
                bad = True
                continue
            content = open(path, "rb").read()
            kind, files = hostcli.kind_of(content)
            want_kind = "cassette" if k == "cas" else "disk"
            if kind != want_kind and not (k == "cas" and len(image) == 0):
                ctx.violation("saved-image", k, "NOT-A-%s-IMAGE" % want_kind.upper(), dict(wit, kind=kind), tr)
                bad = True
                continue
            if k == "cas" and len(image) == 0 and kind != "cassette":
                # an empty program on tape: judged by C14/C06, the strict leader rule does not apply to kind_of
                continue
            if len(files) != 1:
                ctx.violation("saved-image", k, "FILE-COUNT:%d" % len(files), wit, tr)
                bad = True
                continue
            f = files[0]
            sym = None
            if f["type"] != 2 or f["dtype"] != 0:
                sym = "FIELD:type"
            elif f["data"] != image:
                sym = "FIELD:data"
            elif f["load"] != origin:
                sym = "FIELD:load"
            elif f["exec"] not in end_addrs:
                sym = "FIELD:exec"
            elif f["name"] != name.upper()[:8]:
                sym = "FIELD:name"
            if sym:
                ctx.violation("saved-image", k, sym, dict(wit, got={kk: (vv if kk != "data" else len(vv)) for kk, vv in f.items()}), tr)
                bad = True
                continue
            # third witness: file_util.py --list
            res2 = fsmon.run_cli("file_util.py", ["out." + k, "--list"], d)
            ls = hostcli.parse_list_output(res2.out)
            ctx.mon("file_util.list-parses")
            if len(ls) != 1 or ls[0]["len"] != len(image) or ls[0]["load"] != origin or ls[0]["exec"] not in end_addrs or ls[0]["name"][:8] != name.upper()[:8]:
                if not (len(image) == 0 and k == "cas"):
                    ctx.violation("saved-image", k, "LIST-OUTPUT-DISAGREES", dict(wit, listing=res2.out[-300:]), tr)
                    bad = True
                    continue
            ctx.cell("saved/%s/%s/%s" % (k, tr["named_by"], tr["origin"]))
        ctx.outcome("bad" if bad else "ok")
        if not bad:
            ctx.nontriv((case["id"], tuple(case["outs"])))
            if len(ctx.samples) < 2:
                ctx.sample({"case": case["id"], "argv": argv, "image_len": len(image), "origin": origin, "name": name, "stdout": out[-120:]})
    finally:
        shutil.rmtree(d, ignore_errors=True)


def gate(stats):
    out = []
    c = stats["cells"]
    for k in ("cas", "dsk"):
        if not any(x.startswith("saved/%s/NAM" % k) for x in c):
            out.append("no %s image named by NAM verified" % k)
        if not any(x.startswith("saved/%s/--name" % k) for x in c):
            out.append("no %s image named by --name verified" % k)
    if not any(x.startswith("no-name-no-file") for x in c):
        out.append("no run without any name observed")
    return out
