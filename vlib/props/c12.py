"""C12 - no accepted statement ever yields a malformed or silently truncated instruction."""
from vlib import asmmon, asmjudge, forms, hostile
from vlib.forms import POS, NEG
from vlib.ref import mc6809 as R
from vlib.core import rng

PROPERTY = "C12"
SHARDED_GEN = True
RULE = ("cases = one instruction statement each, followed by a labelled NOP so the space the listing reserves is observable: "
        "(a) G2 ill-typed statements whose rejection the property demands (out-of-range values per operand width, <v>255, "
        "unknown/inapplicable registers, offset with auto inc/dec, [,R+], own-stack register, TFR/EXG size mismatch, modes "
        "the datasheet does not give the mnemonic; label expressions that cannot fit an 8-bit immediate) and label expressions of known small value in "
        "one- and two-byte fields; (b) the whole C01 form stream; (c) G3 random and token-mutated operand "
        "strings over every mnemonic (intent unknown, generic clause only). Oracle on every ACCEPTED statement: bytes taken "
        "at hook M1 decode (R1.decode_exact) as exactly one instruction of that mnemonic consuming all bytes, and byte count "
        "== next listing address - own listing address. distinct_nontrivial = distinct source statements that were accepted "
        "and passed through the decoder, plus distinct must-reject statements observed rejected.")
ASSUMPTIONS = ["reference decoder R1 as in C01", "intent of G2 statements is unambiguous from the datasheet; G3 statements are judged only by the generic clause"]


def setup(ctx):
    asmmon.install()


def gen_cases(tier, seed, shard, nshards):
    thorough = tier == "thorough"
    g = 0
    vals = list(POS) + list(NEG)
    for src, canon in forms.mem_mnemonics():
        g += 1
        if g % nshards != shard:
            continue
        for f in forms.fixed_forms(src, canon):
            yield f.case()
        for f in forms.value_forms(src, canon, vals, full_spell=thorough):
            yield f.case()
    for src, canon in R.all_mnemonics():
        if "inh" in R.MODES[canon] and not (set(R.MODES[canon]) & {"imm", "dir", "idx", "ext"}):
            g += 1
            if g % nshards == shard:
                for f in forms.fixed_forms(src, canon):
                    yield f.case()
    g += 1
    if g % nshards == shard:
        for f in forms.reglist_forms(None):
            yield f.case()
        for f in forms.regpair_forms():
            yield f.case()
    n = 0
    for f in hostile.illtyped_forms():
        n += 1
        if n % nshards == shard:
            yield hostile.case_of(f.mn, f.canon, f.form, f.operand, None, f.traits)
    for f in hostile.lowercase_forms():
        n += 1
        if n % nshards == shard:
            c = hostile.case_of(f.mn, f.canon, f.form, f.operand, f.expect, f.traits)
            c["reject_ok"] = True
            yield c
    for c in hostile.labelexpr_cases():
        n += 1
        if n % nshards == shard:
            yield c
    # G3
    per = 6000 if thorough else 90
    for gi, (src, canon) in enumerate(R.all_mnemonics()):
        if gi % nshards != shard:
            continue
        r = rng(seed, "C12", "g3", src)
        for k in range(per):
            if k % 2 == 0:
                op = hostile.mutate(r, r.choice(hostile.VALID_SEEDS))
                if r.random() < 0.3:
                    op = hostile.mutate(r, op)
                form = "g3.mutated"
            else:
                op = hostile.random_operand(r)
                form = "g3.random"
            c = hostile.case_of(src, canon, form, op, None, forms.traits_of(canon))
            c["g3"] = True
            yield c


def run_case(case, ctx):
    if case.get("reject_ok"):
        return asmjudge.judge_reject_or_exact(case, ctx)
    asmjudge.judge_c12(case, ctx, intent_known=not case.get("g3"))


def gate(stats):
    out = []
    if stats["monitors"].get("R1.decode", 0) == 0:
        out.append("decoder oracle never evaluated on an accepted statement")
    if stats["outcomes"].get("rejected", 0) == 0:
        out.append("no rejection observed")
    return out


def evidence_extra(stats):
    cells = stats["cells"]
    return {"mnemonics_with_accepted_decoded_case": len([k for k in cells if k.startswith("accepted/")]),
            "illtyped_classes_observed_rejected": len([k for k in cells if k.startswith("rejected/")])}
