"""C13 - assembly always terminates with output or a source-level diagnostic."""
import os, re, shutil, tempfile
from vlib import asmmon, progs, fsmon, hostile
from vlib.core import rng
from vlib.props import c03

PROPERTY = "C13"
SHARDED_GEN = True
CASE_TIMEOUT = 120
RULE = ("cases = source texts (G6): valid G4 programs; every kind of single-line mutation of valid programs (field deleted / "
        "duplicated, operand emptied, unterminated string, stray punctuation, operand replaced by hostile tokens, last line without "
        "newline); random lines over the source alphabet; the label,PCR distance grid (G5) with 0-2 interleaved unsized PCR "
        "statements; INCLUDE graphs (self-include, 2- and 3-cycles, diamond, missing file, directory). Each text is assembled by the "
        "real Program.process under M2 (repeated state of the size-resolution loop = proven non-termination), M3 (sys.monitoring LINE "
        "events in repository code, budget 2e6 + 50000 per line) and M5 (outcome class). Violations: livelock, step budget, any "
        "exception other than ParseError/TranslationError (also from get_binary_array / get_statements / get_symbol_table after "
        "success), a diagnostic that names no statement of the input. CLI clause: assembler.py run in-process under the M6 audit "
        "hook on texts that end in a diagnostic must exit non-zero, and M6 + directory snapshots must show no file created, "
        "removed or modified. distinct_nontrivial = distinct texts whose assembly ran to a classified end (ok or diagnostic) under M2+M3.")
ASSUMPTIONS = ["termination is restated as (a) no repeated loop state and (b) a generous bound on interpreter line events; a wall-clock "
               "watchdog firing is reported as inconclusive, never as a violation",
               "a diagnostic 'names a statement' when its statement text is one of the input lines (ParseError) or shows the mnemonic "
               "and operand text of an input line (TranslationError)"]
ALPHABET = "ABCDXYUSLPCR019$#<>[],+-*/;'\"@%. \t"
MNEMS = ["LDA", "LDX", "STA", "JMP", "JSR", "BRA", "LBEQ", "LEAX", "NOP", "PSHS", "TFR", "FCB", "FDB", "FCC", "RMB", "EQU", "ORG", "END",
         "NAM", "SETDP", "INCLUDE", "CLRA", "CMPU", "NEG", "XYZ", ""]


def setup(ctx):
    asmmon.install()
    fsmon.install()
    ctx.tmp = tempfile.mkdtemp(prefix="c13-", dir=os.environ.get("VERIF_WORK"))
    ctx.step_max = 0


def teardown(ctx):
    shutil.rmtree(ctx.tmp, ignore_errors=True)
    ctx.extra["steps_per_line_max"] = {"max": 0}
    ctx.extra["step_stats"] = {"max_line_events_single_case": ctx.step_max}


def mutate_line(r, line):
    """returns (kind, new line)"""
    m = re.match(r"^(\S*)(\s+)(\S+)(\s*)(.*?)\n?$", line)
    if not m:
        return "blank", line
    label, ws1, mn, ws2, rest = m.groups()
    k = r.randrange(14)
    if k == 0:
        return "drop-operand", "%s%s%s\n" % (label, ws1, mn)
    if k == 1:
        return "drop-mnemonic", "%s%s%s\n" % (label, ws1, rest)
    if k == 2:
        return "dup-operand", "%s%s%s %s%s\n" % (label, ws1, mn, rest, rest)
    if k == 3:
        return "dup-mnemonic", "%s%s%s %s %s\n" % (label, ws1, mn, mn, rest)
    if k == 4:
        return "stray-punct", "%s%s%s %s%s\n" % (label, ws1, mn, rest, r.choice(list("#[],+-*/<>'\"$%@")))
    if k == 5:
        return "lead-punct", "%s%s%s %s%s\n" % (label, ws1, mn, r.choice(list("#[],+-*/<>'\"$%@")), rest)
    if k == 6:
        return "unterminated-string", "%s%sFCC \"ABC DEF\n" % (label, ws1)
    if k == 7:
        return "empty-string", "%s%sFCC %s\n" % (label, ws1, r.choice(['""', '"', "//", "/", "'", "''"]))
    if k == 8:
        return "hostile-operand", "%s%s%s %s\n" % (label, ws1, mn, hostile.random_operand(r))
    if k == 9:
        return "mutated-operand", "%s%s%s %s\n" % (label, ws1, mn, hostile.mutate(r, rest.split(";")[0].strip() or "5"))
    if k == 10:
        return "other-mnemonic", "%s%s%s %s\n" % (label, ws1, r.choice(MNEMS), rest)
    if k == 11:
        return "no-leading-space", "%s %s\n" % (mn, rest)
    if k == 12:
        return "data-garbage", "%s%s%s %s\n" % (label, ws1, r.choice(["FCB", "FDB", "RMB", "EQU", "ORG", "SETDP", "END", "NAM"]),
                                                r.choice(["", ",", "1,,2", "L", "L+1", "1,L", "-1", "256", "70000", "$", "%2", "'", "1,", "X", "#1", "[1]",
                                                          "-70000", "$10000", "1+1", "1/0", "L/0", "99999999999", "ZZ", "1,2,3,4,5,6,7,8,9,10,11,12,13,14,15,16"]))
    return "expr-garbage", "%s%s%s %s\n" % (label, ws1, r.choice(["LDA", "LDX", "JMP", "LEAX"]),
                                            r.choice(["L/0", "1/0", "L*L", "L+L", "L-L", "#L/0", "[L/0]", "L/0,X", "L/0,PCR", "5/0,X", "1+", "+1", "L+",
                                                      "L++1", "1+2+3", "#1/0", "65535+1", "#65535*2", "0-1", "#0-70000", "L*70000", "L,L", "L,X,Y"]))


def random_line(r):
    n = r.randrange(0, 24)
    body = "".join(r.choice(ALPHABET) for _ in range(n))
    if r.random() < 0.6:
        body = r.choice(["", "L", "LAB1", "X"]) + " " + r.choice(MNEMS) + " " + body
    return body + "\n"


def gen_cases(tier, seed, shard, nshards):
    thorough = tier == "thorough"
    i = 0
    nbase = 400 if thorough else 60
    per_base = 60 if thorough else 25
    for k in range(nbase):
        r = rng(seed, "C13", "base", k)
        p = progs.gen_program(r, r.choice([4, 8, 15, 30]), origin=r.choice([None, 0x1000, 0x30]))
        if r.random() < 0.4:
            p["name"] = "N%d" % k
        if r.random() < 0.3:
            p["end"] = r.choice(["", "{%s}" % p["stmts"][0]["label"] if p["stmts"][0]["label"] else ""])
        base = progs.render(p)
        i += 1
        if i % nshards == shard:
            yield {"id": "valid/%d" % k, "form": "valid", "lines": base}
        for j in range(per_base):
            i += 1
            if i % nshards != shard:
                continue
            li = r.randrange(len(base))
            kind, new = mutate_line(r, base[li])
            lines = list(base)
            lines[li] = new
            if r.random() < 0.1:
                lines[-1] = lines[-1].rstrip("\n")
            yield {"id": "mut/%d/%d" % (k, j), "form": "mut." + kind, "lines": lines, "mutated": li}
    for k in range(60000 if thorough else 4000):
        i += 1
        if i % nshards != shard:
            continue
        r = rng(seed, "C13", "rand", k)
        lines = [random_line(r) for _ in range(r.choice([1, 1, 2, 3, 6]))]
        yield {"id": "rand/%d" % k, "form": "random-lines", "lines": lines}
    for c in c03.pcr_cases(thorough, seed):
        i += 1
        if i % nshards == shard and "pcrexpr" not in c["id"] and (thorough or "/k0" in c["id"] or "pcrcross" in c["id"] or "pcrnest" in c["id"] or i % 3 == 0):
            yield {"id": "grid/" + c["id"], "form": "pcrgrid", "lines": c["lines"]}
    # pcr chains: several mutually dependent unsized PCR statements
    for k in range(3000 if thorough else 300):
        i += 1
        if i % nshards != shard:
            continue
        r = rng(seed, "C13", "chain", k)
        n = r.randrange(2, 7)
        lines = [" ORG $1000\n"]
        for j in range(n):
            lines.append("P%d %s %sQ%d,PCR%s\n" % (j, r.choice(["LDA", "LEAX", "LDY", "STS"]), *(("[", r.randrange(n), "]") if r.random() < 0.3 else ("", r.randrange(n), ""))))
            lines += c03.filler(r.choice([0, 1, 50, 100, 110, 115, 118, 119, 120, 121, 122, 123, 124, 125, 126, 127, 128, 130]), "rmb")
        for j in range(n):
            lines.insert(r.randrange(1, len(lines) + 1), "Q%d NOP\n" % j)
        yield {"id": "chain/%d" % k, "form": "pcrchain", "lines": lines}
    # INCLUDE graphs
    shapes = ["self", "cycle2", "cycle3", "diamond", "missing", "directory", "chain3", "missing-nested", "empty-name"]
    for k, sh in enumerate(shapes):
        i += 1
        if i % nshards == shard:
            yield {"id": "include/" + sh, "form": "include." + sh, "shape": sh, "lines": None}
    # CLI runs on texts ending in a diagnostic (and a few that succeed)
    bad_texts = [[" LDA #\n"], [" XYZ 5\n"], ["L NOP\nL NOP\n"], [" JMP UNDEF\n"], [" LDA #1/0\n"], [" BRA FAR\n"] + [" RMB 200\n"] + ["FAR NOP\n"],
                 [" NAM T\n", " ORG $1000\n", " LDA 5,Z\n"], [" INCLUDE nosuch.asm\n"], [" FCB 256\n"], [" END\n"], [" LDA [\n"],
                 [" NAM T\n", " ORG $1000\n", "S LDA T,PCR\n"] + [" NOP\n"] * 122 + ["T RTS\n"], [" FCC \"abc\n"], [" LDA L,X\n", "L NOP\n"],
                 ["V EQU W\n", "W EQU 5\n"], [" ORG $FFFF\n", " LDX #1\n"], [" STA #1\n"], [" LEAX $10\n"], [" TFR A,X\n"],
                 [" ORG $FFFE\n", " LDA #1\n", "L NOP\n", " NOP\n"], [" ORG $FFF0\n", " RMB 100\n", " NOP\n"], ["V EQU W+1\n", "W EQU 5\n", " LDA #V\n"],
                 ["L NOP\n", " LDA #L/0\n"], [" LDX #65535*2\n"], ["L NOP\n", " FDB L*70000\n"], ["L NOP\n", " LEAX L/0,PCR\n"],
                 ["Z EQU 0\n", "L NOP\n", " LDA [L/Z,PCR]\n"], [" ORG $F000\n", "L NOP\n", " LDX #L+$8000\n", " LEAX L*3,PCR\n", " FDB L+$7000\n"],
                 ["Z EQU 0\n", " RMB Z\n", "E RMB 0\n", " FCB 1\n"], [" ORG $8000\n", "L NOP\n", " JMP L*2\n", " LDA L+L\n"],
                 ["A EQU $FFFF\n", "Q EQU A+1\n", " LDX #Q\n"], ["A EQU 40000\n", "Q EQU A*2\n"], ["B EQU $F000\n", "S EQU $2000\n", " ORG B+S\n", " NOP\n"],
                 ["A EQU -32768\n", "Q EQU A*2\n", " FDB Q\n"], ["A EQU 2\n", "Q EQU A/0\n"], ["Q EQU Q+1\n"], ["A EQU B\n", "B EQU A\n", " LDA #A\n"],
                 # text beyond ASCII: a string character that is no byte, a Latin-1 character (one byte), non-ASCII digits and names
                 [" FCC \"\u0100\"\n"], [" NAM T\n", " FCC \"A\u0113\"\n", "N NOP\n"], [" FCC /caf\u00e9 \u20ac/\n"], [" FCC \"\U0001F600\"\n"],
                 [" LDA #\u0661\u0662\n"], ["caf\u00e9 NOP\n", " JMP caf\u00e9\n"], [" FCB '\u0100\n"], [" LDA #'\u00e9\n"]]
    for k, t in enumerate(bad_texts):
        i += 1
        if i % nshards == shard:
            yield {"id": "crafted/%d" % k, "form": "crafted", "lines": "".join(t).splitlines(True)}
    # source FILES that are not text the assembler can read: bytes that are not UTF-8 (old 8-bit sources), a file that is not there
    for k, raw in enumerate([b" NOP ; caf\xe9\n", b" FCC \"\xff\xfe\"\n", b"\x80\x81\x82\n NOP\n", None]):
        for sw in (["--to_bin", "o.bin"], ["--print"], ["--to_cas", "o.cas", "--to_dsk", "o.dsk"]):
            i += 1
            if i % nshards == shard:
                yield {"id": "cliraw/%d/%s" % (k, sw[0]), "form": "cli", "raw": raw.hex() if raw is not None else None, "argv": sw, "lines": [], "preexisting": False}
    for k, t in enumerate(bad_texts):
        for sw in (["--to_bin", "o.bin"], ["--to_cas", "o.cas"], ["--to_dsk", "o.dsk"], ["--to_bin", "o.bin", "--to_cas", "o.cas", "--to_dsk", "o.dsk"],
                   ["--print", "--symbols"]):
            for pre in ((False, True) if thorough else (False,)):
                i += 1
                if i % nshards == shard:
                    yield {"id": "cli/%d/%s/%s" % (k, "+".join(s for s in sw if s.startswith("--")), pre), "form": "cli", "lines": [l if l.endswith("\n") else l for l in "".join(t).splitlines(True)],
                           "argv": sw + ["--name", "PRG"] + (["--append"] if pre else []), "preexisting": pre}


def names_input(o, lines):
    ds = o.diag_statement
    if ds is None:
        return False
    # either shape names a statement, whichever diagnostic class carries it: an input line verbatim, or a printable listing line
    if ds.rstrip("\n") in [l.rstrip("\n") for l in lines] or ds in lines:
        return True
    m = re.match(r"^\$[0-9A-F]* .{10} +(\S*) +(\S+) (.*?) *; ", ds)
    if not m:
        # listing line with empty label: fields are right-justified; fall back to token search
        toks = ds.split()
        return any(all(t in ds for t in l.split(";")[0].split()[-2:]) for l in lines if l.strip())
    return True


def run_include(case, ctx):
    d = tempfile.mkdtemp(prefix="inc-", dir=ctx.tmp)
    sh = case["shape"]
    files = {}
    if sh == "self":
        files = {"main.asm": " NOP\n INCLUDE main.asm\n"}
    elif sh == "cycle2":
        files = {"main.asm": " NOP\n INCLUDE b.asm\n", "b.asm": " CLRA\n INCLUDE main.asm\n"}
    elif sh == "cycle3":
        files = {"main.asm": " INCLUDE b.asm\n", "b.asm": " INCLUDE c.asm\n", "c.asm": " NOP\n INCLUDE main.asm\n"}
    elif sh == "diamond":
        files = {"main.asm": " INCLUDE b.asm\n INCLUDE c.asm\n", "b.asm": "B1 NOP\n", "c.asm": "C1 NOP\n JMP B1\n"}
    elif sh == "chain3":
        files = {"main.asm": " ORG $100\n INCLUDE b.asm\n JMP C1\n", "b.asm": " INCLUDE c.asm\n", "c.asm": "C1 NOP\n"}
    elif sh == "missing":
        files = {"main.asm": " NOP\n INCLUDE nosuch.asm\n"}
    elif sh == "missing-nested":
        files = {"main.asm": " NOP\n INCLUDE b.asm\n", "b.asm": " INCLUDE nosuch.asm\n"}
    elif sh == "directory":
        files = {"main.asm": " NOP\n INCLUDE sub\n"}
        os.mkdir(os.path.join(d, "sub"))
    elif sh == "empty-name":
        files = {"main.asm": " NOP\n INCLUDE\n"}
    for n, t in files.items():
        open(os.path.join(d, n), "w").write(t)
    cwd = os.getcwd()
    os.chdir(d)
    try:
        lines = open("main.asm").readlines()
        o = asmmon.assemble(lines, budget=3_000_000, keep_program=False)
        judge(case, ctx, o, lines, expect_ok=sh in ("diamond", "chain3"))
        res = fsmon.run_cli("assembler.py", ["main.asm", "--to_bin", "o.bin"], d)
        judge_cli(case, ctx, res, expect_fail=o.outcome != "ok")
    finally:
        os.chdir(cwd)
        shutil.rmtree(d, ignore_errors=True)


def judge(case, ctx, o, lines, expect_ok=False):
    form = case["form"]
    wit = {"source": "".join(lines[:40]), "show": (case["id"] + " " + "".join(lines[:3]).replace("\n", " | "))[:90] + " -> " + o.brief()[:70]}
    ctx.mon("M5.outcome")
    if o.steps is not None:
        ctx.mon("M3.steps")
        ctx.step_max = max(ctx.step_max, o.steps)
    if o.iters:
        ctx.mon("M2.sizing-loop-states", o.iters)
    if o.outcome == "ok":
        ctx.outcome("ok")
        ctx.nontriv(tuple(lines))
        return
    if o.outcome == "diag":
        if not names_input(o, lines):
            ctx.outcome("diag-unnamed")
            ctx.violation("terminate", form.split(".")[0], "DIAG-NAMES-NO-STATEMENT:%s@%s" % (o.exc, o.where), dict(wit, diag=str(o.diag_statement)[:200], message=o.message))
        else:
            ctx.outcome("diag")
            ctx.nontriv(tuple(lines))
            if expect_ok:
                ctx.notes["expected-ok-but-diag:" + form] += 1
        return
    if o.outcome == "livelock":
        ctx.outcome("livelock")
        ctx.violation("terminate", form.split(".")[0], "LIVELOCK", dict(wit, message=o.message))
        return
    if o.outcome == "stepbudget":
        ctx.outcome("stepbudget")
        ctx.violation("terminate", form.split(".")[0], "STEP-BUDGET", dict(wit, message=o.message))
        return
    ctx.outcome("internal")
    ctx.violation("terminate", form.split(".")[0] if not form.startswith("include") else form, "INTERNAL:%s@%s" % (o.exc, o.where), dict(wit, message=o.message))


def judge_cli(case, ctx, res, expect_fail):
    ctx.mon("M6.fs-audit-events", len(res.events))
    ctx.mon("M6.cli-runs")
    form = case["form"]
    wit = {"show": case["id"] + " exit=%s %s" % (res.code, res.out[-80:].replace("\n", " | ")), "argv": case.get("argv"), "output": res.out[-500:],
           "events": res.events[:10], "fsdiff": res.fsdiff}
    if res.exc:
        ctx.outcome("cli-traceback")
        ctx.violation("cli", form, "CLI-INTERNAL:%s@%s" % (res.exc, res.where), wit)
        return
    if not expect_fail:
        ctx.outcome("cli-ok" if res.code == 0 else "cli-fail")
        return
    writes = [e for e in res.events if e[0] != "open-r"]
    fs = res.fsdiff
    if res.code == 0:
        ctx.outcome("cli-exit0-on-diagnostic")
        ctx.violation("cli", form, "CLI-EXIT-0-ON-DIAGNOSTIC", wit)
    elif writes or fs["created"] or fs["removed"] or fs["changed"] or fs["touched"]:
        ctx.outcome("cli-wrote")
        ctx.violation("cli", form, "CLI-OUTPUT-TOUCHED-ON-DIAGNOSTIC", wit)
    else:
        ctx.outcome("cli-diag-clean")
        ctx.nontriv(("cli", case["id"]))


def run_case(case, ctx):
    if case["form"].startswith("include."):
        return run_include(case, ctx)
    lines = case["lines"]
    if case["form"] == "cli":
        d = tempfile.mkdtemp(prefix="cli-", dir=ctx.tmp)
        try:
            if "raw" in case:
                if case["raw"] is not None:
                    open(os.path.join(d, "p.asm"), "wb").write(bytes.fromhex(case["raw"]))
                res = fsmon.run_cli("assembler.py", ["p.asm"] + case["argv"], d)
                ctx.mon("M6.cli-runs")
                judge_cli(case, ctx, res, expect_fail=True)
                return
            open(os.path.join(d, "p.asm"), "w").write("".join(lines))
            if case["preexisting"]:
                for n in ("o.bin", "o.cas", "o.dsk"):
                    open(os.path.join(d, n), "wb").write(b"\x01\x02\x03")
            o = asmmon.assemble(open(os.path.join(d, "p.asm")).readlines(), keep_program=False)
            res = fsmon.run_cli("assembler.py", ["p.asm"] + case["argv"], d)
            judge_cli(case, ctx, res, expect_fail=o.outcome != "ok")
        finally:
            shutil.rmtree(d, ignore_errors=True)
        return
    n = len(lines)
    o = asmmon.assemble(lines, budget=2_000_000 + 50_000 * n, keep_program=False)
    judge(case, ctx, o, lines)
    ctx.cell(case["form"])


def gate(stats):
    out = []
    m = stats["monitors"]
    # M2 (repeated state of the size-resolution loop) is the fast proof of a livelock; M3 (step budget) and the per-case watchdog decide
    # termination for any shape of the code, so a tree that no longer has that loop is still decided
    if m.get("M3.steps", 0) == 0:
        out.append("M3 step counter never ran")
    oc = stats["outcomes"]
    if not oc.get("ok") or not oc.get("diag"):
        out.append("outcome classes ok and diagnostic were not both observed")
    if not m.get("M6.cli-runs"):
        out.append("no CLI run")
    return out
