"""C15 - disk space accounting is exact: files that fit are stored, others fail cleanly."""
import os, shutil, tempfile
from vlib import mediamon, fsmon, files as G
from vlib.ref import dskfs as RD
from vlib.core import rng

PROPERTY = "C15"
CASE_TIMEOUT = 300
RULE = ("cases = histories of additions that take a disk image from empty to full under monitor M8 on the real DiskFile.add_file: "
        "68+ one-granule files (granule exhaustion, also shows that a blank disk offers all 68 granules), few large files "
        "(29-granule and 9-granule mixes), random mixtures, each under the default and under random permutations of the granule "
        "fill order; the 72 directory states 'only slot k free' (exhaustive) where an addition must land in slot k; host-file "
        "histories through assembler.py --to_dsk --append and file_util.py --to_dsk until the addition fails, with the M6 audit "
        "hook and content hashes showing the host file untouched by the failing run. M8 clauses: fits (n<=F and a slot free) => "
        "success using exactly n (or n+1 at an exact multiple) granules, all previously free, and exactly one slot; does not fit "
        "=> failure. distinct_nontrivial = distinct histories that reached a failing add (or all 72 slot states) with every "
        "M8 evaluation silent.")
ASSUMPTIONS = ["n = ceil(stored stream length / 2304) with stream = data + 10 (machine language), + 3 (BASIC) or + 0 (ASCII)",
               "slot states are built directly in the directory sectors (a valid image cannot hold more than 68 files)"]


def setup(ctx):
    mediamon.install()
    mediamon.bind(ctx)
    fsmon.install()
    ctx.tmp = tempfile.mkdtemp(prefix="c15-", dir=os.environ.get("VERIF_WORK"))


def teardown(ctx):
    shutil.rmtree(ctx.tmp, ignore_errors=True)


def gen_cases(tier, seed):
    thorough = tier == "thorough"
    n = 0
    for order in ["default"] + ["perm%d" % i for i in range(40 if thorough else 2)]:
        yield {"id": "fill-small/%s" % order, "kind": "fill", "mix": "small", "order": order}
        yield {"id": "fill-large/%s" % order, "kind": "fill", "mix": "large", "order": order}
        yield {"id": "fill-exact/%s" % order, "kind": "fill", "mix": "exact", "order": order}
    for i in range(1200 if thorough else 24):
        yield {"id": "fill-mixed/%d" % i, "kind": "fill", "mix": "mixed", "order": "default" if i % 3 == 0 else "perm%d" % i, "k": i}
    for k in range(72):
        yield {"id": "slot/%d" % k, "kind": "slot", "k": k}
    for free in (68, 40, 1):
        yield {"id": "noslot/%d" % free, "kind": "noslot", "free": free}
    for i in range(12 if thorough else 4):
        for tool in ("assembler", "file_util"):
            yield {"id": "host/%s/%d" % (tool, i), "kind": "host", "tool": tool, "k": i}


def order_of(case, seed):
    if case["order"] == "default":
        return None
    r = rng(seed, "C15", "order", case["order"])
    o = list(range(68))
    r.shuffle(o)
    return o


def next_file(r, mix, j):
    if mix == "small":
        L = r.choice([0, 1, 100, 2000, 2290, 2294, 2298, 2300, 2301, 2302, 2303])
        t = r.choice([(2, 0), (0, 0), (0, 0xFF)])
    elif mix == "large":
        L = 65535 if j < 2 else r.choice([9 * 2304 - 10, 9 * 2304 - 11, 20000, 65535])
        t = (2, 0)
    elif mix == "exact":
        L = r.choice([2294, 2304 * 2 - 10, 2304 * 3 - 10, 2301, 2304]) if j % 2 == 0 else r.choice([2304, 4608, 2301, 2302, 2303, 4605, 4606, 4607, 6909, 6911])
        t = (2, 0) if j % 2 == 0 else r.choice([(0, 0xFF), (0, 0)])
    else:
        L = r.choice([0, 5, 2294, 2295, 2304, 4598, 4599, 9000, 20000, 30000, 65535, r.randrange(0, 12000)])
        t = r.choice([(2, 0), (2, 0), (0, 0), (0, 0xFF), (1, 0xFF)])
    if t == (0, 0xFF) and L == 0:
        L = 1
    name = "F%d" % j
    if j % 7 == 3 and mix in ("small", "mixed"):
        # names as they come off foreign tapes: NUL padding instead of blanks, or no name at all (the accounting does not depend on names)
        name = r.choice(["\0\0\0\0\0\0\0\0", "\0F%d" % j, "F%d\0\0" % j, ""])
    return {"name": name, "ext": "BIN", "type": t[0], "dtype": t[1], "load": 0x1000, "exec": 0x1000, "data": G.content(r, L, "count").hex(),
            "kind": "ml" if t[0] == 2 else "other"}


def run_fill(case, ctx):
    from cocoasm.virtualfiles.disk import DiskFile
    order = order_of(case, ctx.seed)
    form = "fill.%s" % case["mix"]
    r = rng(ctx.seed, "C15", case["id"])
    d = DiskFile(granule_fill_order=order) if order else DiskFile()
    fails = 0
    stored = 0
    for j in range(100):
        s = next_file(r, case["mix"], j)
        mediamon.set_form(form, {"order": "default" if order is None else "permuted"})
        try:
            d.add_file(G.to_coco(s))       # M8 judges fit/no-fit, granule and slot accounting
            stored += 1
        except Exception:
            fails += 1
            if fails >= 3:
                break
    img = bytes(d.get_buffer())
    F = len(RD.free_granules(img))
    ctx.outcome("history-done")
    ctx.cell("%s/free-at-end-%s" % (form, "0" if F == 0 else "some"))
    if fails:
        ctx.cell("failing-add-observed")
        ctx.nontriv(case["id"])
    if len(ctx.samples) < 2:
        ctx.sample({"history": case["id"], "stored": stored, "failing_adds": fails, "free_granules_at_end": F})


def run_slot(case, ctx):
    from cocoasm.virtualfiles.disk import DiskFile
    k = case["k"]
    img = RD.blank()
    for s in range(RD.NSLOT):
        if s != k:
            img[RD.DIR + 32 * s:RD.DIR + 32 * s + 32] = b"USED%04d" % s + b"BIN" + bytes([2, 0, 0xFF, 0, 0]) + bytes(16)
    d = DiskFile(buffer=list(img))
    mediamon.set_form("slot-state")
    spec = {"name": "NEWFILE", "ext": "BIN", "type": 2, "dtype": 0, "load": 1, "exec": 2, "data": "0102", "kind": "ml"}
    wit = {"show": "only directory slot %d free, add a 2-byte file" % k}
    tr = {"slot": "71" if k == 71 else "0-70"}
    try:
        d.add_file(G.to_coco(spec))
    except Exception as e:
        ctx.outcome("slot-add-failed")
        ctx.violation("slot-states", "only-slot-k-free", "FAILED-THOUGH-SLOT-FREE:%s" % type(e).__name__, dict(wit, error=str(e)[:100]), tr)
        return
    post = bytes(d.get_buffer())
    ctx.mon("slot-state-evaluations")
    changed = [s for s in range(RD.NSLOT) if post[RD.DIR + 32 * s:RD.DIR + 32 * s + 32] != bytes(img[RD.DIR + 32 * s:RD.DIR + 32 * s + 32])]
    if changed != [k] or post[RD.DIR + 32 * k:RD.DIR + 32 * k + 7] != b"NEWFILE":
        ctx.outcome("slot-wrong")
        ctx.violation("slot-states", "only-slot-k-free", "LANDED-IN-WRONG-SLOT", dict(wit, changed=changed), tr)
        return
    ctx.outcome("slot-ok")
    ctx.cell("slot/%d" % k)
    ctx.nontriv(case["id"])


def run_noslot(case, ctx):
    """all 72 directory slots in use (built directly), granules free: the addition has to fail with an error"""
    from cocoasm.virtualfiles.disk import DiskFile
    img = RD.blank()
    for s in range(RD.NSLOT):
        img[RD.DIR + 32 * s:RD.DIR + 32 * s + 32] = b"USED%04d" % s + b"BIN" + bytes([2, 0, 0xFF, 0, 0]) + bytes(16)
    for g in range(68 - case["free"]):
        img[RD.FAT + g] = 0xC1
    d = DiskFile(buffer=list(img))
    mediamon.set_form("no-slot-state")
    spec = {"name": "NEWFILE", "ext": "BIN", "type": 2, "dtype": 0, "load": 1, "exec": 2, "data": "0102", "kind": "ml"}
    wit = {"show": "all 72 directory slots in use, %d granules free, add a 2-byte file" % case["free"]}
    ctx.mon("no-slot-evaluations")
    try:
        d.add_file(G.to_coco(spec))
    except Exception as e:
        internal = {"IndexError", "KeyError", "AttributeError", "TypeError", "RecursionError", "ZeroDivisionError", "AssertionError", "NameError",
                    "UnboundLocalError", "LookupError", "ArithmeticError"}
        if not any(c.__module__ == "builtins" and c.__name__ in internal for c in type(e).__mro__):
            ctx.outcome("noslot-failed-cleanly")
            ctx.cell("noslot/%d" % case["free"])
            ctx.nontriv(case["id"])
        else:
            ctx.outcome("noslot-internal-error")
            ctx.violation("slot-states", "no-slot-free", "FAILED-WITH-INTERNAL-ERROR:%s" % type(e).__name__, dict(wit, error=str(e)[:100]))
        return
    post = bytes(d.get_buffer())
    changed = [s for s in range(RD.NSLOT) if post[RD.DIR + 32 * s:RD.DIR + 32 * s + 32] != bytes(img[RD.DIR + 32 * s:RD.DIR + 32 * s + 32])]
    ctx.outcome("noslot-stored")
    ctx.violation("slot-states", "no-slot-free", "STORED-THOUGH-NO-SLOT-FREE", dict(wit, directory_slots_overwritten=changed))


def run_host(case, ctx):
    """fill a host .dsk through the CLI until an addition fails; the failing run must leave the file as it was"""
    from cocoasm.virtualfiles.disk import DiskFile
    d = tempfile.mkdtemp(prefix="host-", dir=ctx.tmp)
    r = rng(ctx.seed, "C15", case["id"])
    try:
        # pre-fill in-process (monitored) so that little space is left
        disk = DiskFile()
        mediamon.set_form("host-prefill")
        free = 68
        j = 0
        while free > 3:
            n = min(free - r.choice([1, 2, 3]), r.choice([28, 9, 20, 5]))
            if n < 1:
                break
            disk.add_file(G.to_coco({"name": "P%d" % j, "ext": "BIN", "type": 2, "dtype": 0, "load": 0, "exec": 0, "data": bytes(n * 2304 - 30).hex()}))
            free -= n
            j += 1
        target = os.path.join(d, "t.dsk")
        open(target, "wb").write(bytes(disk.get_buffer()))
        free = len(RD.free_granules(open(target, "rb").read()))
        size = (free + 1) * 2304 - 20          # needs free+1 granules: cannot fit
        mediamon.set_form("host-cli")
        if case["tool"] == "assembler":
            open(os.path.join(d, "p.asm"), "w").write(" NAM BIG\n ORG $1000\n RMB %d\n" % size)
            argv = ["p.asm", "--to_dsk", "t.dsk", "--append"]
            tool = "assembler.py"
        else:
            from cocoasm.virtualfiles.cassette import CassetteFile
            c = CassetteFile()
            c.add_file(G.to_coco({"name": "BIG", "ext": "", "type": 2, "dtype": 0, "load": 0, "exec": 0, "data": bytes(size).hex()}))
            open(os.path.join(d, "src.cas"), "wb").write(bytes(c.get_buffer()))
            argv = ["src.cas", "--to_dsk", "t.dsk", "--append"]
            tool = "file_util.py"
        before = open(target, "rb").read()
        res = fsmon.run_cli(tool, argv, d)
        after = open(target, "rb").read() if os.path.exists(target) else None
        ctx.mon("M6.cli-runs")
        wit = {"show": "%s %s with %d free granules, new file needs %d -> exit %s %s" % (tool, " ".join(argv), free, free + 1, res.code, res.out[-80:].replace("\n", " | ")),
               "events": res.events[:8], "fsdiff": res.fsdiff}
        writes = [e for e in res.events if e[0] != "open-r" and e[1].endswith("t.dsk")]
        if after != before or writes or "t.dsk" in (res.fsdiff["changed"] + res.fsdiff["removed"] + res.fsdiff["touched"]):
            ctx.outcome("host-modified")
            ctx.violation("host-file", "failing-save." + case["tool"], "HOST-FILE-TOUCHED-BY-FAILING-SAVE", wit)
        elif not res.out.strip():
            ctx.outcome("host-silent")
            ctx.violation("host-file", "failing-save." + case["tool"], "FAILED-SILENTLY", wit)
        else:
            ctx.outcome("host-clean-failure")
            ctx.nontriv(case["id"])
            ctx.cell("host-clean/" + case["tool"])
    finally:
        shutil.rmtree(d, ignore_errors=True)


def run_case(case, ctx):
    if case["kind"] == "fill":
        return run_fill(case, ctx)
    if case["kind"] == "slot":
        return run_slot(case, ctx)
    if case["kind"] == "noslot":
        return run_noslot(case, ctx)
    return run_host(case, ctx)


def gate(stats):
    out = []
    m = stats["monitors"]
    c = stats["cells"]
    if not m.get("M8.disk-post.success") or not m.get("M8.disk-post.failure"):
        out.append("M8 success and failure paths were not both evaluated")
    if "failing-add-observed" not in c:
        out.append("no history reached a failing add")
    if not any(k.endswith("free-at-end-0") for k in c):
        out.append("no history reached F = 0")
    if stats["outcomes"].get("slot-ok", 0) + stats["outcomes"].get("slot-wrong", 0) + stats["outcomes"].get("slot-add-failed", 0) < 72:
        out.append("not all 72 slot states were run")
    if not stats["outcomes"].get("noslot-failed-cleanly") and not stats["outcomes"].get("noslot-stored"):
        out.append("no addition to a directory without a free slot was observed")
    return out
