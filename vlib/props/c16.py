"""C16 - file_util conversions carry every selected file across unchanged."""
import os, shutil, tempfile, subprocess
from vlib import mediamon, fsmon, hostcli, files as G
from vlib.ref import tape as RT, dskfs as RD
from vlib.core import rng, REPO

PROPERTY = "C16"
CASE_TIMEOUT = 300
RULE = ("cases = source images (cassette built by the reference tape generator R4, disk built by the reference writer R5, from generated "
        "file lists of 1-5 files incl. lower/mixed-case names, all file kinds, boundary lengths) x target kind (--to_cas / --to_dsk / "
        "--to_bin) x selection (none, or a random subset via --files spelled in upper / lower / mixed case) x chains cas->dsk->cas and "
        "dsk->cas->dsk. file_util.py runs in-process under the M6 audit hook (plus real subprocess runs). Oracle: the produced image, "
        "parsed by R4/R5, must list exactly the selected files of the source in source order with identical type, data type, data and "
        "(machine-language files) load/entry addresses; --list output is parsed and cross-checked at every step; --to_bin must equal "
        "the single file's data, and with several files must exit non-zero and write nothing. distinct_nontrivial = distinct "
        "conversion chains fully compared.")
ASSUMPTIONS = ["names compare case-insensitively after trimming padding (disk directories store upper case)",
               "load/entry addresses are compared for machine-language files only (Disk BASIC stores them nowhere else)"]


def setup(ctx):
    mediamon.install()
    mediamon.bind(ctx)
    fsmon.install()
    ctx.tmp = tempfile.mkdtemp(prefix="c16-", dir=os.environ.get("VERIF_WORK"))


def teardown(ctx):
    shutil.rmtree(ctx.tmp, ignore_errors=True)


def gen_cases(tier, seed):
    thorough = tier == "thorough"
    for k in range(1500 if thorough else 90):
        r = rng(seed, "C16", k)
        src = r.choice(["cas", "dsk"])
        nf = r.choice([1, 1, 2, 3, 5])
        specs = []
        for j in range(nf):
            s = G.gen_file(r, "disk" if src == "dsk" else "tape", unique=j if src == "dsk" else None, maxname=8,
                           length=r.choice([0, 1, 5, 255, 256, 300, 2294, 2295, 2304, 4600, r.randrange(0, 6000)]))
            if src == "cas":
                s["name"] = ("%d" % j + "".join(r.choice(G.NAMECH) for _ in range(r.randrange(0, 7))))[:8]
                if s["type"] == 3:
                    s["type"] = 1
            if s["type"] != 2 and s["dtype"] == 0xFF and len(s["data"]) == 0:
                s["data"] = "41"
            specs.append(s)
        if src == "cas" and nf >= 2 and k % 4 == 1:
            # the same program saved twice on one tape (same name, different contents): both are files of the source
            specs[r.randrange(1, nf)]["name"] = specs[0]["name"]
        chain = r.choice([["dsk"], ["cas"], ["dsk", "cas"], ["cas", "dsk"], ["dsk", "cas", "dsk"], ["cas", "dsk", "cas"], ["bin"], ["both"], ["both"]])
        sel = None
        if r.random() < 0.5 and chain not in (["bin"],):
            pick = [s for s in specs if r.random() < 0.6] or [specs[0]]
            style = r.choice(["upper", "lower", "mixed", "asis"])
            sel = {"names": [s["name"] for s in pick], "style": style}
        yield {"id": "conv/%d" % k, "src": src, "files": specs, "chain": chain, "select": sel, "sub": k < (30 if thorough else 4)}


def respell(name, style, r):
    if style == "upper":
        return name.upper()
    if style == "lower":
        return name.lower()
    if style == "mixed":
        return "".join(c.upper() if r.random() < 0.5 else c.lower() for c in name)
    return name


def build_source(src, specs, r):
    if src == "cas":
        fl = [dict(name=s["name"].ljust(8)[:8].encode("latin-1"), ftype=s["type"], dtype=s["dtype"], load=s["load"], exec=s["exec"], data=bytes.fromhex(s["data"])) for s in specs]
        return RT.generate(fl, r)
    img = RD.blank()
    free = list(range(RD.NGR))
    if r.random() < 0.3:
        r.shuffle(free)
    for s in specs:
        f = dict(name=s["name"].upper().encode("latin-1"), ext=s["ext"].upper().encode("latin-1"), ftype=s["type"], ascii=s["dtype"], load=s["load"], exec=s["exec"],
                 data=bytes.fromhex(s["data"]))
        need = max(1, -(-len(RD.stream_of(f)) // RD.GRAN))
        RD.write_file(img, f, [free.pop(0) for _ in range(need)])
    return bytes(img)


def run_tool(ctx, case, argv, d):
    if case["sub"]:
        p = subprocess.run(["/venv/bin/python", os.path.join(REPO, "file_util.py")] + argv, cwd=d, capture_output=True, text=True, timeout=120,
                           env=dict(os.environ, PYTHONPATH=REPO, PYTHONDONTWRITEBYTECODE="1"))
        ctx.mon("subprocess-runs")
        return p.returncode, p.stdout + p.stderr, None, []
    res = fsmon.run_cli("file_util.py", argv, d)
    ctx.mon("M6.cli-runs")
    return res.code, res.out, res.exc and "%s@%s" % (res.exc, res.where), res.events


def run_case(case, ctx):
    d = tempfile.mkdtemp(prefix="c-", dir=ctx.tmp)
    r = rng(ctx.seed, "C16", case["id"], "run")
    try:
        specs = case["files"]
        cur = "src." + case["src"]
        open(os.path.join(d, cur), "wb").write(build_source(case["src"], specs, r))
        expected = [hostcli.norm_spec(s) for s in specs]
        has_empty = any(len(e["data"]) == 0 for e in expected)
        tr = {"src": case["src"], "has_empty": has_empty}
        mediamon.set_form("c16")
        for i, tgt in enumerate(case["chain"]):
            if tgt in ("dsk", "cas") and len(expected) == 1 and len(expected[0]["data"]) > 0 and i == len(case["chain"]) - 1 and not case["select"]:
                # one invocation with a container target AND --to_bin: the binary must still be the file's data byte for byte
                out = "combo.%s" % tgt
                argv = [cur, "--to_" + tgt, out, "--to_bin", "combo.bin"]
                code, text, exc, events = run_tool(ctx, case, argv, d)
                pth = os.path.join(d, "combo.bin")
                got = open(pth, "rb").read() if os.path.exists(pth) else None
                if got != expected[0]["data"]:
                    ctx.violation("convert", "%s->%s+bin" % (cur.split(".")[-1], tgt), "TO-BIN-DATA-DIFFERS", {"show": "%s: file_util.py %s -> bin has %s bytes, file has %d" % (case["id"], " ".join(argv), None if got is None else len(got), len(expected[0]["data"]))}, tr)
                    ctx.outcome("bad")
                    return
                ctx.cell("step/container+bin")
            if tgt == "both":
                # one invocation naming two targets: each must hold every selected file
                argv = [cur, "--to_cas", "both.cas", "--to_dsk", "both.dsk"]
                want = expected
                if case["select"]:
                    sel = case["select"]
                    argv += ["--files"] + [respell(n, sel["style"], r) for n in sel["names"]]
                    chosen = set(n.upper() for n in sel["names"])
                    want = [e for e in expected if e["name"] in chosen]
                code, text, exc, events = run_tool(ctx, case, argv, d)
                wit = {"show": "%s: file_util.py %s -> exit %s %s" % (case["id"], " ".join(argv), code, text.strip().replace("\n", " | ")[-80:]), "files": [G.brief(s) for s in specs]}
                src_empty = next((j for j, e in enumerate(expected) if len(e["data"]) == 0), None)
                for nm, kindname in (("both.cas", "cassette"), ("both.dsk", "disk")):
                    pth = os.path.join(d, nm)
                    kind, got = hostcli.kind_of(open(pth, "rb").read()) if os.path.exists(pth) else ("missing", [])
                    has_e = any(len(e["data"]) == 0 for e in want)
                    diff = hostcli.same_list(got, want)
                    if diff:
                        ctx.violation("convert", "%s->both" % case["src"], "SECOND-TARGET:" + diff if nm == "both.dsk" else diff, dict(wit, target=nm, got=[g["name"] for g in got], want=[w["name"] for w in want]), tr)
                        ctx.outcome("bad")
                        return
                ctx.outcome("ok")
                ctx.nontriv(case["id"])
                ctx.cell("step/both-targets")
                return
            out = "step%d.%s" % (i, tgt)
            argv = [cur, "--to_" + tgt, out]
            sel = case["select"] if i == 0 else None
            want = expected
            chosen = set()
            if sel:
                spelled = [respell(n, sel["style"], r) for n in sel["names"]]
                r.shuffle(spelled)                       # the order (and repetition) of the names given must not matter
                if r.random() < 0.3:
                    spelled.append(respell(r.choice(sel["names"]), r.choice(["upper", "lower"]), r))
                argv += ["--files"] + spelled
                chosen = set(n.upper() for n in sel["names"])
                want = [e for e in expected if e["name"] in chosen]
                tr = dict(tr, select=sel["style"])
            code, text, exc, events = run_tool(ctx, case, argv, d)
            wit = {"show": "%s: file_util.py %s -> exit %s %s" % (case["id"], " ".join(argv), code, text.strip().replace("\n", " | ")[-80:]),
                   "files": [G.brief(s) for s in specs], "step": i}
            form = "%s->%s" % (cur.split(".")[-1], tgt)
            if exc:
                ctx.violation("convert", form, "CLI-TRACEBACK:" + exc, wit, tr)
                ctx.outcome("traceback")
                return
            path = os.path.join(d, out)
            if tgt == "bin":
                fe = next((j for j, e in enumerate(expected) if len(e["data"]) == 0), None)

                def label(default):
                    # a mismatch that is exactly what "the source listing stops at the first empty file" would produce gets that symptom
                    if cur.endswith("cas") and fe is not None:
                        view = expected[:fe]
                        out_ok = os.path.exists(path) and len(view) == 1 and open(path, "rb").read() == view[0]["data"]
                        if (len(view) == 1 and out_ok) or (len(view) > 1 and code != 0 and not os.path.exists(path)) or len(view) == 0:
                            return "COUNT:source-cassette-listing-stops-at-empty-file"
                    return default
                if len(expected) > 1:
                    if code == 0 or os.path.exists(path):
                        ctx.violation("convert", form, label("TO-BIN-DID-NOT-REFUSE-MULTIPLE-FILES"), wit, tr)
                        ctx.outcome("bad")
                    else:
                        ctx.outcome("ok")
                        ctx.cell("to_bin/refused-multiple")
                        ctx.nontriv(case["id"])
                    return
                if not os.path.exists(path) or open(path, "rb").read() != expected[0]["data"]:
                    ctx.violation("convert", form, label("TO-BIN-DATA-DIFFERS"), wit, tr)
                    ctx.outcome("bad")
                else:
                    ctx.outcome("ok")
                    ctx.cell("to_bin/single")
                    ctx.nontriv(case["id"])
                return
            if not os.path.exists(path):
                ctx.violation("convert", form, "NO-OUTPUT:exit-%s" % code, wit, tr)
                ctx.outcome("bad")
                return
            kind, got = hostcli.kind_of(open(path, "rb").read())
            src_empty = next((j for j, e in enumerate(expected) if len(e["data"]) == 0), None)
            seen_by_tool = expected if src_empty is None else expected[:src_empty]
            model = [e for e in seen_by_tool if not sel or e["name"] in chosen]
            first_empty = next((j for j, e in enumerate(want) if len(e["data"]) == 0), None)
            if cur.endswith("cas") and src_empty is not None and model != want and hostcli.same_list(got, model) is None:
                # the known wrong behaviour, modelled exactly: the source cassette is listed only up to its first empty file
                ctx.violation("convert", form, "COUNT:source-cassette-listing-stops-at-empty-file", dict(wit, got=[g["name"] for g in got], want=[w["name"] for w in want]), tr)
                ctx.outcome("bad")
                return
            if kind != ("cassette" if tgt == "cas" else "disk") and want:
                ctx.violation("convert", form, "OUTPUT-NOT-A-%s-IMAGE" % tgt.upper(), dict(wit, kind=kind), tr)
                ctx.outcome("bad")
                return
            diff = hostcli.same_list(got, want)
            if diff:
                ctx.violation("convert", form, diff, dict(wit, got=[g["name"] for g in got], want=[w["name"] for w in want]), tr)
                ctx.outcome("bad")
                return
            # --list cross-check of the produced image
            c2, t2, e2, _ = run_tool(ctx, dict(case, sub=False), [out, "--list"], d)
            ls = hostcli.parse_list_output(t2)
            ctx.mon("file_util.list-parses")
            if [(x["name"][:8], x["len"]) for x in ls] != [(w["name"][:8], len(w["data"])) for w in want]:
                first_empty = next((j for j, e in enumerate(want) if len(e["data"]) == 0), None)
                sym = "LIST-OUTPUT-DISAGREES"
                if out.endswith("cas") and first_empty is not None and len(ls) == first_empty:
                    sym = "LIST-OUTPUT-DISAGREES:cassette-listing-stops-at-empty-file"
                ctx.violation("convert", form, sym, dict(wit, listing=t2[-300:]), tr)
                ctx.outcome("bad")
                return
            expected = want
            cur = out
            ctx.cell("step/" + form)
        ctx.outcome("ok")
        ctx.nontriv(case["id"])
        if len(ctx.samples) < 3:
            ctx.sample({"case": case["id"], "source": case["src"], "chain": case["chain"], "select": case["select"], "files": [G.brief(s) for s in specs]})
    finally:
        shutil.rmtree(d, ignore_errors=True)


def gate(stats):
    out = []
    c = stats["cells"]
    for need in ("step/cas->dsk", "step/dsk->cas", "step/dsk->dsk", "step/cas->cas"):
        if need not in c:
            out.append("no verified conversion " + need)
    if "to_bin/single" not in c or "to_bin/refused-multiple" not in c:
        out.append("--to_bin single and refusal were not both observed")
    return out
