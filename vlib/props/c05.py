"""C05 - data directives emit exactly the bytes they specify."""
from vlib import asmmon
from vlib.forms import spellings, POS
from vlib.core import rng

PROPERTY = "C05"
SHARDED_GEN = False
RULE = ("cases = single data-directive statements (followed by a labelled NOP): FCB / FDB lists of length 1-64 whose elements are "
        "literals in every spelling, negative numbers, EQU symbols or labels; FCC strings of printable ASCII of length 0-255 with "
        "every delimiter character, runs of spaces, ';', quotes, commas and brackets, with and without a trailing comment; RMB n for "
        "boundary and random n (thorough: every n 0-4096); EQU / ORG / SETDP / NAM / END (with and without operand) / INCLUDE. "
        "Oracle: the bytes observed at hook M1 for the statement must equal the literal meaning computed by the generator (one byte "
        "per FCB value, two big-endian per FDB value, the characters between the delimiters, n zero bytes; negatives two's "
        "complement at the directive's width), an out-of-width value must be rejected, and non-emitting directives must emit nothing. "
        "distinct_nontrivial = distinct accepted statements whose bytes were compared, plus out-of-width statements observed rejected.")
ASSUMPTIONS = ["printable ASCII = $20-$7E; the delimiter is the first non-blank character after FCC and does not occur inside the string"]
PRINT = [chr(c) for c in range(0x20, 0x7F)]
DELIMS = list("\"/'|!#$%&*+-.:=?@^_~,()<>[]{}`\\") + list("AZaz09")


def setup(ctx):
    asmmon.install()


def val_text(r, width, kind):
    """-> (text, value or None if it must be rejected)"""
    lim = 1 << (8 * width)
    if kind == "lit":
        v = r.choice([0, 1, 127, 128, 255] + ([256, 32767, 32768, 65535] if width == 2 else []) + [r.randrange(lim)])
        return r.choice(spellings(v, True))[1], v
    if kind == "neg":
        v = -r.choice([1, 2, 127, 128] + ([129, 255, 256, 32767, 32768] if width == 2 else []))
        return str(v), v % lim
    if kind == "over":
        v = r.choice([256, 257, 4095, 65535] if width == 1 else [65536, 70000])
        return str(v), None
    if kind == "negover":
        v = -r.choice([129, 200, 256, 32768] if width == 1 else [32769, 40000, 65535])
        return str(v), None
    raise ValueError(kind)


def gen_cases(tier, seed):
    thorough = tier == "thorough"
    n = 0
    for mn, width in (("FCB", 1), ("FDB", 2)):
        # single values: every boundary value x every spelling
        for v in POS:
            for sc, s in spellings(v, True):
                ok = v < (1 << (8 * width))
                yield {"id": "%s/single/%s" % (mn, s), "mn": mn, "operand": s, "expect": (v.to_bytes(width, "big").hex() if ok else None), "form": "%s.single.%s" % (mn.lower(), "lit" if ok else "over"), "pre": [], "post": []}
        for v in [-1, -2, -127, -128, -129, -255, -256, -32767, -32768]:
            ok = v >= -(1 << (8 * width - 1))
            yield {"id": "%s/single/%d" % (mn, v), "mn": mn, "operand": str(v), "expect": ((v % (1 << (8 * width))).to_bytes(width, "big").hex() if ok else None),
                   "form": "%s.single.%s" % (mn.lower(), "neg" if ok else "negover"), "pre": [], "post": []}
        # symbols
        for carrier in ("equ-before", "equ-after", "label-before", "label-after"):
            for v in ([5, 200] if width == 1 else [5, 200, 0x1234, 0xFFF0]):
                if carrier.startswith("equ"):
                    pre = ["SYM EQU $%X\n" % v] if carrier == "equ-before" else []
                    post = ["SYM EQU $%X\n" % v] if carrier == "equ-after" else []
                    exp = v.to_bytes(width, "big").hex()
                else:
                    if width == 1 and v > 255:
                        continue
                    if carrier == "label-before":
                        pre, post = [" ORG $%X\n" % v, "SYM NOP\n"], []
                    else:
                        pre, post = [" ORG $%X\n" % max(0, v - width - 1)], ["SYM NOP\n"]
                    exp = "sym"
                yield {"id": "%s/sym/%s/%d" % (mn, carrier, v), "mn": mn, "operand": "SYM", "expect": exp, "form": "%s.single.symbol" % mn.lower(), "pre": pre, "post": post, "width": width}
                yield {"id": "%s/symlist/%s/%d" % (mn, carrier, v), "mn": mn, "operand": "1,SYM,2", "expect": exp if exp != "sym" else "symlist", "form": "%s.list.symbol" % mn.lower(), "pre": pre, "post": post, "width": width,
                       "listwrap": True}
        # lists
        for k in range(12000 if thorough else 300):
            r = rng(seed, "C05", mn, "list", k)
            ln = r.choice([1, 2, 2, 3, 5, 8, 16, 33, 64])
            bad = r.random() < 0.15
            items, exp = [], b""
            badpos = r.randrange(ln) if bad else -1
            for i in range(ln):
                kind = r.choice(["over", "negover"]) if i == badpos else r.choice(["lit", "lit", "lit", "neg"])
                t, v = val_text(r, width, kind)
                items.append(t)
                if v is not None:
                    exp += v.to_bytes(width, "big")
            yield {"id": "%s/list/%d" % (mn, k), "mn": mn, "operand": ",".join(items), "expect": None if bad else exp.hex(),
                   "form": "%s.%s.%s" % (mn.lower(), "list" if ln > 1 else "single", "over" if bad else ("neg" if any(x.startswith("-") for x in items) else "lit")), "pre": [], "post": []}
    # lists whose elements mix literals, negative numbers, EQU symbols (defined before or after use), labels (before and after the
    # statement) and two-term expressions over them; label addresses follow from the layout: LB = org, the list at org+1, LA after ZZ9
    for mn, width in (("FCB", 1), ("FDB", 2)):
        lim = 1 << (8 * width)
        for k in range(6000 if thorough else 260):
            r = rng(seed, "C05", mn, "mixed", k)
            ln = r.choice([2, 2, 3, 4, 6, 9, 17, 40, 64])
            org = r.choice([0x10, 0x40, 0x90] if width == 1 else [0x10, 0x90, 0x1000, 0x7FF0, 0xFE00])
            lb, la = org, org + 2 + ln * width
            consts = {"K%d" % i: r.choice([0, 1, 2, 127, 128, 200, 255] + ([256, 0x1234, 32768, 65535] if width == 2 else []) + [-1, -2, -128])
                      for i in range(4)}
            where = {n_: r.choice(["before", "after"]) for n_ in consts}
            bad = r.random() < 0.15
            badpos = r.randrange(ln) if bad else -1
            items, exp, used = [], b"", set()
            for i in range(ln):
                kind = r.choice(["lit", "neg", "equ", "equ", "label", "expr", "expr"])
                if i == badpos:
                    kind = r.choice(["over", "negover", "expr-over", "label-over"] if width == 1 else ["over", "negover"])
                if kind in ("lit", "neg", "over", "negover"):
                    t, v = val_text(r, width, kind)
                elif kind == "equ":
                    t = r.choice(sorted(consts))
                    v = consts[t] % lim
                    used.add(t)
                elif kind == "label":
                    t = r.choice(["LB", "LA"])
                    v = lb if t == "LB" else la
                    if v >= lim:
                        t, v = "1", 1
                elif kind == "label-over":
                    t, v = "LB+256", None
                elif kind == "expr-over":
                    t, v = r.choice(["K0+300", "255+1", "16*16", "LA+255"]), None
                    used.add("K0")
                    if consts["K0"] < 0:
                        t = "255+1"
                else:
                    a = r.choice(sorted(consts) + ["LB", "LA", "3", "$10"])
                    b = r.choice(["1", "2", "$10", "LB"] + sorted(consts))
                    op = r.choice("+-*")
                    av = consts.get(a, lb if a == "LB" else la if a == "LA" else int(a.replace("$", "0x"), 0) if a[0] in "$0123456789" else None)
                    bv = consts.get(b, lb if b == "LB" else int(b.replace("$", "0x"), 0) if b[0] in "$0123456789" else None)
                    val = av + bv if op == "+" else av - bv if op == "-" else av * bv
                    labels = sum(1 for x in (a, b) if x in ("LB", "LA"))
                    if not (0 <= val < lim) or (op == "*" and labels) or av < 0 or bv < 0:
                        t, v = "2+3", 5            # keep to results the property states exactly
                    else:
                        t, v = a + op + b, val
                        used.update(x for x in (a, b) if x in consts)
                items.append(t)
                if v is not None:
                    exp += v.to_bytes(width, "big")
            pre = ["%s EQU %d\n" % (n_, consts[n_]) for n_ in sorted(used) if where[n_] == "before"] + [" ORG $%X\n" % org, "LB NOP\n"]
            post = ["LA NOP\n"] + ["%s EQU %d\n" % (n_, consts[n_]) for n_ in sorted(used) if where[n_] == "after"]
            yield {"id": "%s/mixed/%d" % (mn, k), "mn": mn, "operand": ",".join(items), "expect": None if bad else exp.hex(),
                   "form": "%s.list.%s" % (mn.lower(), "mixed-over" if bad else "mixed"), "pre": pre, "post": post,
                   "traits": {"labels": any(x in t_ for t_ in items for x in ("LB", "LA")), "exprs": any(c in t_[1:] for t_ in items for c in "+-*")}}
    # the same symbol used by data directives of different widths in ONE program (each statement judged separately)
    for org in (0x80, 0x10, 0xF0):
        for order in (("FCB", "FDB", "FCB"), ("FDB", "FCB", "FDB"), ("FDB", "FDB", "FCB", "FCB")):
            pre = [" ORG $%X\n" % org, "VAR RMB 1\n"]
            for j, mn in enumerate(order):
                rest = [" %s VAR\n" % m for m in order[j + 1:]]
                before = [" %s VAR\n" % m for m in order[:j]]
                yield {"id": "multi/%X/%s/%d" % (org, "-".join(order), j), "mn": mn, "operand": "VAR", "expect": ("%02X" % org if mn == "FCB" else "%04X" % org).lower(),
                       "form": "%s.single.symbol-shared" % mn.lower(), "pre": pre + before, "post": rest}
    # FCC
    for k in range(25000 if thorough else 700):
        r = rng(seed, "C05", "fcc", k)
        delim = r.choice(DELIMS)
        ln = r.choice([0, 1, 2, 3, 5, 10, 20, 40, 80, 128, 200, 255])
        style = r.choice(["alnum", "spaces", "punct", "any", "semicolon", "delims"])
        pool = {"alnum": list("ABCxyz019"), "spaces": list("AB  C   "), "punct": list(".,:!?()[]<>#$%&*+-=/'\""), "any": PRINT,
                "semicolon": list("AB;C ;"), "delims": list("\"/'|AB ")}[style]
        txt = "".join(r.choice([c for c in pool if c != delim] or ["A"]) for _ in range(ln))
        comment = r.choice(["", "", " ; comment", " ;c", "   ; a \"quoted\" comment"])
        yield {"id": "FCC/%d" % k, "mn": "FCC", "operand": delim + txt + delim + comment, "expect": txt.encode("latin-1").hex(),
               "form": "fcc.%s" % style, "pre": [], "post": [], "traits": {"delim": "quote" if delim == '"' else ("alnum" if delim.isalnum() else "other"), "comment": bool(comment),
                                                                          "empty": ln == 0}}
    # RMB
    ns = sorted(set([0, 1, 2, 255, 256, 257, 1000, 4095, 4096, 32767, 32768, 65535] + (list(range(0, 4097)) if thorough else list(range(0, 40)))))
    for n_ in ns:
        for sc, s in (spellings(n_, True) if n_ in (0, 1, 255, 256, 4096, 65535) else spellings(n_, False)[:1]):
            yield {"id": "RMB/%s" % s, "mn": "RMB", "operand": s, "expect": "00" * n_, "form": "rmb", "pre": [], "post": []}
    for bad in ("-1", "65536", "70000"):
        yield {"id": "RMB/" + bad, "mn": "RMB", "operand": bad, "expect": None, "form": "rmb.over", "pre": [], "post": []}
    # directives that emit nothing
    for mn, ops in (("EQU", ["5", "$1234", "K", "K+1"]), ("ORG", ["$2000", "0", "K", "K+$100"]),
                    ("SETDP", ["$10", "0", "K", "K/256", "LAB", "LAB/256", "START/256", "LAB+1"]), ("NAM", ["PROG", "x"]),
                    ("END", ["", "START", "LAB", "START+1", "K"])):
        for op in ops:
            label = "SYM " if mn == "EQU" else " "
            pre = ["K EQU $2100\n"] + ([] if mn == "ORG" else [" ORG $3000\n", "START NOP\n"])
            post = ["LAB NOP\n", " FDB LAB,START\n" if mn != "ORG" else " FDB LAB\n"]
            yield {"id": "%s/%s" % (mn, op), "mn": mn, "operand": op, "expect": "", "form": "no-bytes." + mn.lower(), "pre": pre if mn != "ORG" or "K" in op else [],
                   "post": post if "LAB" in op or mn == "SETDP" else [], "label": label.strip(), "whole_image": True}


def run_case(case, ctx):
    stmt = "%s %s %s\n" % (case.get("label", "") or ("X1" if False else ""), case["mn"], case["operand"])
    lines = case["pre"] + [stmt, "ZZ9 NOP\n"] + case["post"]
    t = len(case["pre"])
    o = asmmon.assemble(lines, keep_program=False)
    ctx.mon("M5.outcome")
    form, traits = case["form"], case.get("traits", {})
    wit = {"source": "".join(lines), "show": stmt.strip()[:70] + " -> " + o.brief()[:60]}
    exp = case["expect"]
    if o.outcome not in ("ok", "diag"):
        ctx.outcome("not-ok:" + o.outcome)        # internal errors: C13's subject
        if exp is not None:
            ctx.violation("data", form, "NOT-ACCEPTED:%s:%s@%s" % (o.outcome, o.exc, o.where), wit, traits)
        return
    if o.outcome == "diag":
        if exp is None:
            ctx.outcome("rejected-out-of-width")
            ctx.nontriv(stmt)
            ctx.cell("rejected/" + form)
        else:
            ctx.outcome("rejected-valid")
            ctx.violation("data", form, "REJECTED-VALID", wit, traits)
        return
    ctx.mon("M1.asm-post")
    if t >= len(o.stmts):
        ctx.outcome("statement-missing")
        ctx.violation("data", form, "STATEMENT-MISSING-FROM-PROGRAM", wit, traits)
        return
    st = o.stmts[t]
    got = bytes(st["bytes"])
    if exp is None:
        ctx.outcome("accepted-out-of-width")
        ctx.violation("data", form, "ACCEPTED-OUT-OF-WIDTH", dict(wit, bytes=got.hex()[:40]), traits)
        return
    if exp in ("sym", "symlist"):
        addr = next(s["addr"] for s in o.stmts if s["label"] == "SYM")
        w = case["width"]
        exp = addr.to_bytes(2, "big")[-w:].hex() if addr < (1 << (8 * w)) else None
        if exp is None:
            ctx.outcome("skipped")
            return
        if case["expect"] == "symlist":
            exp = (1).to_bytes(w, "big").hex() + exp + (2).to_bytes(w, "big").hex()
    elif case.get("listwrap"):
        w = case["width"]
        exp = (1).to_bytes(w, "big").hex() + exp + (2).to_bytes(w, "big").hex()
    if got.hex() != exp:
        ctx.outcome("wrong-bytes")
        sym = "WRONG-BYTES"
        if len(got) != len(exp) // 2:
            sym = "WRONG-LENGTH:%+d" % (len(got) - len(exp) // 2) if abs(len(got) - len(exp) // 2) < 3 else "WRONG-LENGTH"
        ctx.violation("data", form, sym, dict(wit, got=got.hex()[:60], want=exp[:60]), traits)
        return
    nxt = o.stmts[t + 1] if t + 1 < len(o.stmts) else {"addr": None}
    if nxt["addr"] is not None and st["addr"] is not None and nxt["addr"] - st["addr"] != len(got) and case["mn"] not in ("ORG",):
        ctx.violation("data", form, "RESERVED-SIZE:%+d" % (len(got) - (nxt["addr"] - st["addr"])), wit, traits)
        return
    ctx.outcome("ok")
    ctx.nontriv(stmt)
    ctx.cell(form)
    if form not in ctx.extra.setdefault("_seen", {}):
        ctx.extra["_seen"][form] = 1
        ctx.sample({"source": stmt.strip()[:80], "bytes": got.hex()[:60]}, limit=8)


def gate(stats):
    out = []
    c = stats["cells"]
    for need in ("fcb.single.lit", "fcb.list.lit", "fdb.single.lit", "fdb.list.lit", "rmb"):
        if need not in c:
            out.append("no accepted case for " + need)
    if not any(k.startswith("fcc.") for k in c):
        out.append("no accepted FCC case")
    return out
