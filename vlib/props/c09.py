"""C09 - adding or appending a file never disturbs files already stored."""
import os, shutil, tempfile
from vlib import mediamon, fsmon, hostcli, asmmon, files as G
from vlib.ref import tape as RT, dskfs as RD
from vlib.core import rng

PROPERTY = "C09"
CASE_TIMEOUT = 600
RULE = ("cases = histories of 2-8 (quick) / 2-25 (thorough) operations on a real host file per medium: add 1-3 files through the "
        "VirtualFile API (open_virtual_file / add_coco_file / save_virtual_file(append_mode=True)), add through assembler.py "
        "--to_cas/--to_dsk --append, add through file_util.py --append, each followed by re-opening; files of the C06/C07 boundary "
        "lengths; disks driven to capacity (failing adds must leave everything as it was); cassette images grown past 161280 bytes "
        "whose bytes at the offsets a disk parser reads are $00/$FF. A shadow list is advanced per successful operation; after every "
        "save the host bytes are parsed by R4/R5 and by the tool (open_virtual_file + list_files, sniffed kind recorded) and both are "
        "compared with the shadow (earlier files identical, same order, new files after them). M8 additionally checks 'old files "
        "byte-identical' after every DiskFile.add_file and M7 'earlier bytes untouched' after every CassetteFile.add_file. "
        "distinct_nontrivial = distinct histories with at least two saves and a re-open in which every comparison matched.")
ASSUMPTIONS = ["R4/R5 reference parsers decide what the host file contains", "cassette histories avoid empty files except in the dedicated case (known finding V01)"]
ASM_T = " NAM %s\n ORG $%X\n LDA #%d\n RTS\n"


def setup(ctx):
    mediamon.install()
    mediamon.bind(ctx)
    asmmon.install()
    fsmon.install()
    ctx.tmp = tempfile.mkdtemp(prefix="c09-", dir=os.environ.get("VERIF_WORK"))


def teardown(ctx):
    shutil.rmtree(ctx.tmp, ignore_errors=True)


def gen_cases(tier, seed):
    thorough = tier == "thorough"
    for k in range(1200 if thorough else 110):
        r = rng(seed, "C09", k)
        medium = r.choice(["cas", "dsk"])
        nops = r.randrange(2, 26) if thorough else r.randrange(2, 9)
        ops = []
        for j in range(nops):
            ops.append(r.choice(["api", "api", "asm", "futil", "api-multi", "futil-select"]))
        if k % 4 == 3:
            # a program name with a Latin-1 letter (one byte on the medium): the image must stay what it is and keep listing everything
            ops.insert(r.randrange(1, len(ops) + 1), "asm-latin1")
        if k % 4 == 1:
            # an addition that cannot be written (a name with a character no tape or disk can hold) somewhere after the first save
            ops.insert(r.randrange(1, len(ops) + 1), "asm-unwritable")
        yield {"id": "hist/%d" % k, "kind": "history", "medium": medium, "ops": ops, "fill": r.random() < 0.15 and medium == "dsk"}
    # in-memory histories on ONE DiskFile object: add, list, add, list ... (what was listable must stay listable)
    for k in range(400 if thorough else 40):
        r = rng(seed, "C09", "mem", k)
        specs = [G.gen_file(r, "disk", unique=j, length=r.choice(G.DISK_LEN + [r.randrange(0, 9000)])) for j in range(r.choice([2, 3, 5, 8]))]
        yield {"id": "memdisk/%d" % k, "kind": "own", "files": specs, "order": None if k % 3 else sorted(range(68), key=lambda g: r.random())}
    for k in range(400 if thorough else 40):
        r = rng(seed, "C09", "memtape", k)
        specs = [G.gen_file(r, "tape", length=r.choice(G.TAPE_LEN[1:] + [r.randrange(1, 3000)])) for _ in range(r.choice([2, 3, 4, 6]))]
        yield {"id": "memtape/%d" % k, "kind": "owntape", "files": specs}
    for fill in (0x00, 0xFF):
        yield {"id": "bigcas/%02X" % fill, "kind": "bigcas", "fill": fill}
    # "whatever its size or content": file DATA that, at the offsets a disk parser looks at, spells a directory entry and an
    # allocation-table chain (a cassette that holds a picture of a disk)
    yield {"id": "bigcas/mimic-disk", "kind": "bigcas", "fill": 0, "mimic": True}
    # ... and the other way round: a disk whose first granules hold a file that is itself a complete cassette image
    for order in ("ascending", "default"):
        yield {"id": "dsk-holds-tape/" + order, "kind": "dsktape", "order": order}
    yield {"id": "cas-empty-then-append", "kind": "cas-empty"}


def mk_spec(r, medium, j, big=False):
    L = r.choice(G.TAPE_LEN[1:] if medium == "cas" else G.DISK_LEN) if not big else r.choice([20000, 40000, 65535, 9 * 2304 - 20])
    s = G.gen_file(r, "tape" if medium == "cas" else "disk", length=L, maxname=8)
    s["name"] = ("%c%d" % (r.choice("ABxyQ"), j) + "".join(r.choice(G.NAMECH) for _ in range(r.randrange(0, 5))))[:8]
    if medium == "dsk" and s["type"] != 2 and s["dtype"] == 0xFF and L == 0:
        s["data"] = "41"
    return s


def vf_open(path, medium):
    from cocoasm.virtualfiles.virtual_file import VirtualFile, VirtualFileType
    from cocoasm.virtualfiles.source_file import SourceFile, SourceFileType
    vf = VirtualFile(SourceFile(path, file_type=SourceFileType.BINARY), VirtualFileType.CASSETTE if medium == "cas" else VirtualFileType.DISK)
    vf.open_virtual_file()
    return vf


def check_host(ctx, case, path, medium, shadow, step, why):
    """host bytes parsed by the reference and by the tool vs the shadow list"""
    wit = {"show": "%s after step %d (%s): %d files expected" % (case["id"], step, why, len(shadow)), "expected": [s["name"] for s in shadow]}
    tr = {"medium": medium}
    form = "history." + why
    if not os.path.exists(path):
        if shadow:
            ctx.violation("host-history", form, "HOST-FILE-MISSING", wit, tr)
            return False
        return True
    content = open(path, "rb").read()
    kind, got = hostcli.kind_of(content)
    want = [hostcli.norm_spec(s) for s in shadow]
    ctx.mon("R4R5.host-parses")
    if kind != ("cassette" if medium == "cas" else "disk"):
        ctx.violation("host-history", form, "HOST-FILE-NOT-A-%s-IMAGE" % medium.upper(), dict(wit, kind=kind), tr)
        return False
    d = hostcli.same_list(got, want)
    if d:
        ctx.violation("host-history", form, "REFERENCE-LISTING:" + d, dict(wit, got=[g["name"] for g in got]), tr)
        return False
    # the tool's own view + recognised kind (M9)
    from cocoasm.virtualfiles.virtual_file import VirtualFile, VirtualFileType
    from cocoasm.virtualfiles.source_file import SourceFile, SourceFileType
    vf = VirtualFile(SourceFile(path, file_type=SourceFileType.BINARY))
    try:
        vf.open_virtual_file()
    except Exception as e:
        ctx.violation("host-history", form, "REOPEN-RAISED:%s" % type(e).__name__, dict(wit, error=str(e)[:100]), tr)
        return False
    ctx.mon("M9.sniffed-kind")
    sn = vf.virtual_file_type
    if sn != (VirtualFileType.CASSETTE if medium == "cas" else VirtualFileType.DISK):
        ctx.violation("host-history", form, "RECOGNISED-AS-%s" % sn.name, dict(wit, size=len(content)), dict(tr, size=">=161280" if len(content) >= 161280 else "<161280"))
        return False
    listed = [{"name": f.name.upper().replace(" ", "").replace("\0", "")[:8], "type": mediamon.vint(f.type), "dtype": mediamon.vint(f.data_type),
               "load": mediamon.vint(f.load_addr), "exec": mediamon.vint(f.exec_addr), "data": bytes(f.data)} for f in vf.list_files()]
    d = hostcli.same_list(listed, want)
    if d:
        ctx.violation("host-history", form, "TOOL-LISTING:" + d, dict(wit, got=[g["name"] for g in listed]), tr)
        return False
    return True


def run_history(case, ctx):
    d = tempfile.mkdtemp(prefix="h-", dir=ctx.tmp)
    r = rng(ctx.seed, "C09", case["id"], "run")
    medium = case["medium"]
    path = os.path.join(d, "img." + medium)
    shadow = []
    saves = 0
    ok = True
    try:
        for step, op in enumerate(case["ops"]):
            mediamon.set_form("history." + op, {"medium": medium})
            before = open(path, "rb").read() if os.path.exists(path) else None
            new = []
            failed = None
            if op in ("api", "api-multi"):
                new = [mk_spec(r, medium, len(shadow) + i, big=case["fill"]) for i in range(1 if op == "api" else r.randrange(2, 4))]
                try:
                    vf = vf_open(path, medium)
                    for s in new:
                        vf.add_coco_file(G.to_coco(s))
                    vf.save_virtual_file(append_mode=True)
                except Exception as e:
                    failed = e
            elif op == "asm-unwritable":
                open(os.path.join(d, "p.asm"), "w").write(" ORG $1000\n LDA #1\n RTS\n")        # no NAM: --name names the file
                nm = r.choice(["AB\u20ac", "\u0100", "N\u4e2d"])
                res = fsmon.run_cli("assembler.py", ["p.asm", "--to_" + medium, "img." + medium, "--append", "--name", nm], d)
                after_ = open(path, "rb").read() if os.path.exists(path) else None
                ctx.mon("unwritable-additions")
                if after_ == before:
                    failed = "refused: " + res.out[-80:]
                    new = []
                else:
                    # it went through after all: then it is an ordinary addition (the name is compared as the tool stored it)
                    kind_, got_ = hostcli.kind_of(after_ or b"")
                    if len(got_) == len(shadow) + 1:
                        new = [{"name": got_[-1]["name"], "ext": "BIN", "type": 2, "dtype": 0, "load": 0x1000, "exec": 0x1000, "data": bytes([0x86, 1, 0x39]).hex()}]
                    else:
                        ctx.violation("host-history", "history.asm-unwritable", "UNWRITABLE-ADDITION-DAMAGED-HOST-FILE",
                                      {"show": "%s step %d: --append --name %r left %s bytes (%s, %d files) where %d files were stored: %s" % (
                                          case["id"], step, nm, len(after_) if after_ is not None else None, kind_, len(got_), len(shadow), res.out.strip()[-70:])},
                                      {"medium": medium})
                        ok = False
                        break
            elif op == "asm-latin1":
                open(os.path.join(d, "p.asm"), "w").write(" ORG $1000\n LDA #2\n RTS\n")
                nm = r.choice(["caf\u00e9", "\u00c9T\u00c9", "na\u00efve%d" % step])
                res = fsmon.run_cli("assembler.py", ["p.asm", "--to_" + medium, "img." + medium, "--append", "--name", nm], d)
                ctx.mon("latin1-named-additions")
                new = [{"name": nm, "ext": "BIN", "type": 2, "dtype": 0, "load": 0x1000, "exec": 0x1000, "data": bytes([0x86, 2, 0x39]).hex()}]
                if "Unable to save" in res.out or res.exc:
                    failed = res.out[-100:]          # refusing such a name is fine - as long as nothing stored is disturbed
            elif op == "asm":
                nm = "P%d" % step
                plain = [x for x in shadow if x["name"].isascii() and x["name"].isalnum()]     # NAM takes letters and digits
                if plain and r.random() < 0.35:
                    nm = r.choice(plain)["name"].upper()[:8]          # a program named like a file the image already holds
                org = r.choice([0x1000, 0x2000, 0x0E00])
                v = r.randrange(256)
                open(os.path.join(d, "p.asm"), "w").write(ASM_T % (nm, org, v))
                res = fsmon.run_cli("assembler.py", ["p.asm", "--to_" + medium, "img." + medium, "--append"], d)
                new = [{"name": nm, "ext": "BIN", "type": 2, "dtype": 0, "load": org, "exec": org, "data": bytes([0x86, v, 0x39]).hex()}]
                if "Unable to save" in res.out or res.exc:
                    failed = res.out[-100:]
            else:
                s = mk_spec(r, "cas", len(shadow))
                s["type"], s["dtype"] = 2, 0
                srcfiles = [s]
                extra_args = []
                if op == "futil-select":
                    # a two-file source of which only one is selected: the selection applies to the source, never to what the target already holds
                    s2 = mk_spec(r, "cas", len(shadow) + 50)
                    s2["type"], s2["dtype"] = 2, 0
                    srcfiles = [s, s2] if r.random() < 0.5 else [s2, s]
                    extra_args = ["--files", r.choice([s["name"].lower(), s["name"].upper(), s["name"]])]
                src = RT.generate([dict(name=x["name"].ljust(8).encode(), ftype=2, dtype=0, load=x["load"], exec=x["exec"], data=bytes.fromhex(x["data"])) for x in srcfiles], r)
                open(os.path.join(d, "one.cas"), "wb").write(src)
                res = fsmon.run_cli("file_util.py", ["one.cas", "--to_" + medium, "img." + medium, "--append"] + extra_args, d)
                new = [s]
                if res.code != 0:
                    failed = res.out[-100:]
            after = open(path, "rb").read() if os.path.exists(path) else None
            if failed is not None:
                ctx.outcome("op-failed")
                if after != before:
                    ctx.violation("host-history", "history." + op, "FAILED-OPERATION-CHANGED-HOST-FILE", {"show": "%s step %d %s failed (%s) but the host file changed" % (case["id"], step, op, str(failed)[:60])}, {"medium": medium})
                    ok = False
                    break
                # legitimate only when the disk is full; otherwise it is C15's subject - here only 'nothing disturbed' matters
            else:
                shadow += new
                saves += 1
            if not check_host(ctx, case, path, medium, shadow, step, op):
                ok = False
                break
        ctx.outcome("history-ok" if ok else "history-bad")
        if ok and saves >= 2:
            ctx.nontriv(case["id"])
            ctx.cell("history/%s/saves>=2" % medium)
            if len(ctx.samples) < 2:
                ctx.sample({"history": case["id"], "medium": medium, "ops": case["ops"], "files_at_end": [G.brief(s) for s in shadow][:8]})
    finally:
        shutil.rmtree(d, ignore_errors=True)


def plant_disk_picture(specs, image):
    """put a directory entry (HIDDEN.BIN, ASCII, first granule 0, 5 bytes) at the first directory slot and a last-granule
    marker into allocation-table entry 0, by changing file DATA only; None if one of those offsets is not inside a payload"""
    want = {RD.FAT: 0xC1}
    for i, v in enumerate(b"HIDDEN  BIN" + bytes([0x00, 0xFF, 0x00, 0x00, 0x05])):
        want[RD.DIR + i] = v
    where = {}
    p = 0
    for k, s_ in enumerate(specs):
        n = len(s_["data"]) // 2
        p += 128 + 128 + 21 + 128 + 128
        d = 0
        while d < n:
            ln = min(255, n - d)
            p += 4
            for o in want:
                if p <= o < p + ln:
                    where[o] = (k, d + o - p)
            p += ln + 2
            d += ln
        p += 6
    if len(where) != len(want) or p != len(image):
        return None
    out = [dict(s_) for s_ in specs]
    for o, (k, d) in where.items():
        data = bytearray(bytes.fromhex(out[k]["data"]))
        data[d] = want[o]
        out[k]["data"] = bytes(data).hex()
    return out


def run_bigcas(case, ctx):
    """a cassette image written by the tool, >= 161280 bytes, whose bytes at the FAT/directory offsets are $00/$FF"""
    from cocoasm.virtualfiles.cassette import CassetteFile
    fill = case["fill"]
    d = tempfile.mkdtemp(prefix="b-", dir=ctx.tmp)
    try:
        mediamon.set_form("bigcas")
        found = None
        for shift in range(1, 400):
            specs = [{"name": "SHIFT", "ext": "", "type": 2, "dtype": 0, "load": 0, "exec": 0, "data": (bytes([fill]) * shift).hex()}] + \
                    [{"name": "BIG%d" % i, "ext": "", "type": 2, "dtype": 0, "load": 0, "exec": 0, "data": (bytes([fill]) * 60000).hex()} for i in range(3)]
            c = CassetteFile()
            c.add_files([G.to_coco(s) for s in specs])
            b = bytes(c.get_buffer())
            if len(b) >= RD.IMAGE and all(b[RD.DIR + 32 * k] in (0, 0xFF) for k in range(72)):
                if case.get("mimic"):
                    planted = plant_disk_picture(specs, b)
                    if planted is None:
                        continue
                    specs = planted
                    c = CassetteFile()
                    c.add_files([G.to_coco(s) for s in specs])
                    b = bytes(c.get_buffer())
                    if b[RD.DIR:RD.DIR + 11] != b"HIDDEN  BIN" or b[RD.FAT] != 0xC1:
                        continue
                found = (specs, b)
                break
            if shift > 40 and fill == 0xFF:
                break
        if not found:
            ctx.outcome("bigcas-no-alignment")
            specs = specs
            b = b
        else:
            specs, b = found
            ctx.cell("bigcas/aligned-%02X" % fill + ("-mimic-disk" if case.get("mimic") else ""))
        path = os.path.join(d, "img.cas")
        open(path, "wb").write(b)
        case2 = dict(case, medium="cas")
        ok = check_host(ctx, case2, path, "cas", specs, 0, "bigcas-reopen")
        # and append to it through both routes
        if ok:
            open(os.path.join(d, "p.asm"), "w").write(ASM_T % ("ADDED", 0x1000, 7))
            res = fsmon.run_cli("assembler.py", ["p.asm", "--to_cas", "img.cas", "--append"], d)
            specs2 = specs + [{"name": "ADDED", "ext": "", "type": 2, "dtype": 0, "load": 0x1000, "exec": 0x1000, "data": bytes([0x86, 7, 0x39]).hex()}]
            if "Unable to save" in res.out:
                ctx.violation("host-history", "history.bigcas-append", "APPEND-REFUSED:" + ("not-of-type" if "not of type" in res.out else "other"),
                              {"show": "assembler.py --to_cas --append onto a %d-byte cassette: %s" % (len(b), res.out.strip()[-80:])}, {"medium": "cas", "size": ">=161280"})
                ok = False
            else:
                ok = check_host(ctx, case2, path, "cas", specs2, 1, "bigcas-append")
        ctx.outcome("bigcas-ok" if ok else "bigcas-bad")
        if ok:
            ctx.nontriv(case["id"])
            ctx.cell("bigcas/reopened>=161280")
    finally:
        shutil.rmtree(d, ignore_errors=True)


def run_dsktape(case, ctx):
    from cocoasm.virtualfiles.disk import DiskFile
    d = tempfile.mkdtemp(prefix="t-", dir=ctx.tmp)
    try:
        r = rng(ctx.seed, "C09", case["id"])
        tape = RT.generate([dict(name=b"INNER   ", ftype=2, dtype=0, load=0x2000, exec=0x2000, data=bytes(range(200)))], r)
        specs = [{"name": "TAPEIMG", "ext": "DAT", "type": 1, "dtype": 0xFF, "load": 0, "exec": 0, "data": tape.hex(), "kind": "other"},
                 {"name": "PROG", "ext": "BIN", "type": 2, "dtype": 0, "load": 0x3000, "exec": 0x3000, "data": bytes([0x86, 1, 0x39]).hex(), "kind": "ml"}]
        mediamon.set_form("dsk-holds-tape")
        disk = DiskFile(granule_fill_order=list(range(68))) if case["order"] == "ascending" else DiskFile()
        disk.add_files([G.to_coco(s_) for s_ in specs])
        path = os.path.join(d, "img.dsk")
        open(path, "wb").write(bytes(disk.get_buffer()))
        ok = check_host(ctx, dict(case, medium="dsk"), path, "dsk", specs, 0, "dsk-holds-tape")
        if ok:
            open(os.path.join(d, "p.asm"), "w").write(ASM_T % ("ADDED", 0x1000, 7))
            res = fsmon.run_cli("assembler.py", ["p.asm", "--to_dsk", "img.dsk", "--append"], d)
            specs2 = specs + [{"name": "ADDED", "ext": "BIN", "type": 2, "dtype": 0, "load": 0x1000, "exec": 0x1000, "data": bytes([0x86, 7, 0x39]).hex()}]
            if "Unable to save" in res.out:
                ctx.violation("host-history", "history.dsk-holds-tape", "APPEND-REFUSED:" + ("not-of-type" if "not of type" in res.out else "other"),
                              {"show": "assembler.py --to_dsk --append onto a disk that holds a tape image: %s" % res.out.strip()[-80:]}, {"medium": "dsk"})
                ok = False
            else:
                ok = check_host(ctx, dict(case, medium="dsk"), path, "dsk", specs2, 1, "dsk-holds-tape-append")
        ctx.outcome("dsktape-ok" if ok else "dsktape-bad")
        if ok:
            ctx.nontriv(case["id"])
            ctx.cell("dsk-holds-tape/" + case["order"])
    finally:
        shutil.rmtree(d, ignore_errors=True)


def run_cas_empty(case, ctx):
    d = tempfile.mkdtemp(prefix="e-", dir=ctx.tmp)
    try:
        path = os.path.join(d, "img.cas")
        mediamon.set_form("cas-empty")
        specs = [{"name": "ONE", "ext": "", "type": 2, "dtype": 0, "load": 1, "exec": 1, "data": "0102"},
                 {"name": "EMPTY", "ext": "", "type": 2, "dtype": 0, "load": 2, "exec": 2, "data": ""},
                 {"name": "THREE", "ext": "", "type": 2, "dtype": 0, "load": 3, "exec": 3, "data": "030303"}]
        vf = vf_open(path, "cas")
        for s in specs:
            vf.add_coco_file(G.to_coco(s))
        vf.save_virtual_file(append_mode=True)
        vf = vf_open(path, "cas")
        new = {"name": "FOUR", "ext": "", "type": 2, "dtype": 0, "load": 4, "exec": 4, "data": "04"}
        vf.add_coco_file(G.to_coco(new))
        vf.save_virtual_file(append_mode=True)
        kind, got = hostcli.kind_of(open(path, "rb").read())
        names = [g["name"] for g in got]
        if names != ["ONE", "EMPTY", "THREE", "FOUR"]:
            sym = "FILES-AFTER-EMPTY-CASSETTE-FILE-LOST-ON-APPEND" if names == ["ONE", "FOUR"] else "REFERENCE-LISTING:other"
            ctx.violation("host-history", "history.cas-with-empty-file", sym, {"show": "stored ONE, EMPTY(0 bytes), THREE; appended FOUR -> host file now holds %s" % names}, {"medium": "cas"})
            ctx.outcome("cas-empty-bad")
        else:
            ctx.outcome("cas-empty-ok")
            ctx.nontriv(case["id"])
    finally:
        shutil.rmtree(d, ignore_errors=True)


def run_case(case, ctx):
    if case["kind"] == "own":
        from vlib import media_disk
        media_disk._run_case(case, ctx)
        ctx.cell("memdisk")
        return
    if case["kind"] == "owntape":
        from vlib import media_tape
        media_tape._run_case(dict(case, kind="own"), ctx)
        ctx.cell("memtape")
        return
    if case["kind"] == "history":
        return run_history(case, ctx)
    if case["kind"] == "bigcas":
        return run_bigcas(case, ctx)
    if case["kind"] == "dsktape":
        return run_dsktape(case, ctx)
    return run_cas_empty(case, ctx)


def gate(stats):
    out = []
    c = stats["cells"]
    for m in ("cas", "dsk"):
        if "history/%s/saves>=2" % m not in c:
            out.append("no %s history with two saves and a re-open compared" % m)
    if "bigcas/reopened>=161280" not in c and not stats["outcomes"].get("bigcas-bad"):
        out.append("no cassette >= 161280 bytes re-opened")
    return out
