"""C14 - every cassette image written is a well-formed CoCo tape stream."""
from vlib.media_tape import setup, gen_cases, run_case, gate_c14 as gate
PROPERTY = "C14"
RULE = ("cases = the C06 file lists. Monitor M7 is a postcondition on the real CassetteFile.add_file: the bytes appended by each call "
        "are parsed by the strict reference parser R4 (leader, name block of exactly 15 payload bytes, leader, data blocks of 1-255 "
        "bytes, EOF block; every block 55 3C type len payload checksum 55 with len = payload size and checksum = (type+len+sum) mod "
        "256) and must be exactly one file equal to the CoCoFile argument; the complete image is parsed again after the last add. "
        "distinct_nontrivial = distinct cases in which every appended region parsed and matched.")
ASSUMPTIONS = ["R4 strictness: any byte other than $00/$55 between blocks is a violation; leader = at least one $55 besides the block's own"]
