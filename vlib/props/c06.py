"""C06 - cassette images round-trip every file exactly."""
from vlib.media_tape import setup, gen_cases, run_case, gate_c06 as gate
PROPERTY = "C06"
RULE = ("cases = (a) lists of 0-6 generated files (names 0-12 printable non-space ASCII in either case, types 0-3, data type $00/$FF, "
        "boundary and random 16-bit addresses, data lengths 0,1,254,255,256,509,510,511,k*255+-1 and random, content random / "
        "constant / counting / dense in the block markers 55 3C 00/01/FF) written by the real CassetteFile.add_files and read back "
        "by the real CassetteFile(buffer).list_files(); (b) foreign well-formed tapes produced by the reference generator R4 "
        "(leaders of 1-300 bytes, blank runs, gaps between data blocks, data blocks of any size 1-255) read by the tool. Oracle = "
        "shadow list compared field by field (count, order, name case-insensitively padded/truncated to 8, type, data type, load, "
        "exec, data). distinct_nontrivial = distinct cases whose listing was compared and matched.")
ASSUMPTIONS = ["R4 (vlib/ref/tape.py) transcribes the Color BASIC tape format; each block carries its own leading and trailing $55",
               "foreign tapes always have at least one leader byte before the name block and before the first data block"]
