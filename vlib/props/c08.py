"""C08 - every disk image written is a structurally valid Disk BASIC filesystem."""
from vlib.media_disk import setup, gen_cases, run_case, gate_c08 as gate
PROPERTY = "C08"
RULE = ("cases = the C07 stored-file sequences (default and permuted fill orders, boundary lengths). Monitor M8 runs the reference "
        "consistency check R5.fsck on the image after EVERY successful DiskFile.add_file: size 161280; each chain within 0-67, no "
        "revisit, terminated by $C0-$C9, chains disjoint, every non-$FF FAT byte on exactly one chain; implied length = stored stream "
        "length; ML stream in chain order = 00 len load | data | FF 00 00 exec; no byte outside allocated granules / FAT sector / "
        "directory sectors differs from $FF. distinct_nontrivial = distinct cases in which every add passed fsck.")
ASSUMPTIONS = ["fsck accepts both conventions for a last granule that ends on a sector boundary (n+1 sectors/0 bytes or n sectors/256 bytes); "
               "FAT bytes 68-255 and reserved directory bytes are not constrained"]
