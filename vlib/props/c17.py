"""C17 - assembler output depends only on the source text."""
import os, sys, re, json, subprocess, types
from vlib import asmmon, progs, hostile
from vlib.core import rng, REPO, VERIF
from vlib import fpworker
from vlib.props import c13

PROPERTY = "C17"
CASE_TIMEOUT = 600
RULE = ("cases = groups of 8 source texts (G4 accepted programs, mutated/rejected ones, PCR-heavy ones, texts that end in internal "
        "errors). For every text P the fingerprint (outcome class, diagnostic, image, listing, symbol table, origin, name) is taken "
        "(1) in the monitored worker after the other texts of the group were assembled in order, (2) immediately again, (3) after a "
        "second pass over the whole group, and in three fresh interpreter processes with PYTHONHASHSEED 1 / 12345 / random that "
        "assemble the group in reversed, shuffled and original order; all fingerprints of P must be equal. Monitor M10 takes a deep "
        "fingerprint of module-level state of every cocoasm module (INSTRUCTIONS, compiled patterns, class attributes, the objects "
        "bound as default arguments such as the shared NoneValue() defaults, CoCoFile field defaults) before and after every "
        "assembly; the caller's list of lines is compared (identity, length, contents) before/after. distinct_nontrivial = distinct "
        "texts whose fingerprints were compared across all seven executions.")
ASSUMPTIONS = ["'schedules' is interpreted as orders of assemblies inside one interpreter and hash seeds across interpreters: the repository has no threads"]
GROUP = 8


TWINS = [(f, o) for f, ops in (
    (("PSHU", "PSHS"), ["S,X", "U,PC", "A,B", "X,Y,S", "U"]), (("PULS", "PULU"), ["S,X", "U,PC", "CC,DP"]), (("TFR", "EXG"), ["A,B", "X,Y", "D,X"]),
    (("LDA", "LDX"), ["#5", "$10,X", "[$1234]", "#V", "V", "L", "V+1", "L+1", "-5,Y", "V,PCR", "L,PCR", "#V*2"]),
    (("FCB", "FDB"), ["V*2", "V+1", "L+1", "V", "L", "1,2,3", "V-1", "L-V"]), (("FCB", "FCB"), ["V*2", "L+1", "V"]), (("FDB", "FDB"), ["V*2", "L+1", "L"]),
    # the same ELEMENT text in list form (elements are parsed one by one - anything remembered per element text shows here)
    (("FCB", "FDB"), ["V*2,0,1", "1,V+1", "L+1,2", "V,V"]), (("FCB", "FCB"), ["V+1,1", "1,V*2"]), (("FDB", "FDB"), ["1,L+1", "V*2,L", "L-V,V"]),
    (("LDA", "LEAX"), ["V,X", "L,PCR", "[L,PCR]", "V,PCR"]), (("LDA", "LDA"), ["V-1,X", "V+1,Y", "[V*2,U]", "V/2,S", "#V-1", "V+1", "[V+1]", "<V+1", "V-1,PCR"]),
    (("LDX", "LDX"), ["V-1,X", "[V+2,Y]", "#V*3", "V+V"]), (("LEAY", "LEAY"), ["V-1,X", "V*2,U", "L+1,PCR"]), (("JMP", "LBRA"), ["L", "L+1"]), (("STA", "CMPU"), ["V", "L", "$10,X"]), (("LDX", "LDX"), ["#L+V", "#V*V", "L"]))
    for o in ops]


RELATED = [(m, l) for m in ("LDA", "LDX", "LDB", "STA", "JMP", "LEAX", "CMPU") for l in ("5", "$05", "$0005", "200", "$1234", "16", "128")]


def setup(ctx):
    asmmon.install()


def gen_cases(tier, seed):
    thorough = tier == "thorough"
    for g in range(1200 if thorough else 40):
        r = rng(seed, "C17", g)
        texts = []
        for j in range(GROUP):
            kind = r.choice(["ok", "ok", "ok", "mut", "rand", "pcr", "big"])
            p = progs.gen_program(r, r.choice([3, 8, 20, 40]) if kind != "big" else 150, origin=r.choice([None, 0x1000, 0x40, 0xE000]),
                                  features={"pcr", "rel", "lrel", "inh", "data"} if kind == "pcr" else None)
            if r.random() < 0.4:
                p["name"] = "N%d" % j
            lines = progs.render(p)
            if kind == "mut":
                i = r.randrange(len(lines))
                lines[i] = c13.mutate_line(r, lines[i])[1]
            elif kind == "rand":
                lines = [c13.random_line(r) for _ in range(r.randrange(1, 5))]
            texts.append(lines)
        # twins: the same operand text under different mnemonics / with different symbol values in different programs of one group -
        # anything cached on operand text alone, or on a symbol name, makes the later program depend on the earlier one
        for tw in range(3):
            fam, opnd = TWINS[(3 * g + tw) % len(TWINS)]
            v1, v2 = r.sample([1, 2, 5, 7, 100, 255, 256, 1000], 2)
            for mn, v, org in ((fam[0], v1, 0x1000), (fam[1], v2, 0x2000)):
                texts.append(["V EQU %d\n" % v, " ORG $%X\n" % org, " RMB %d\n" % v, "L NOP\n", " %s %s\n" % (mn, opnd), " RTS\n"])
        # the same literal under the same mnemonic in two syntactic roles (address vs index / PCR offset vs immediate)
        mn, lit = RELATED[g % len(RELATED)]
        for opnd in r.sample([lit, lit + ",X", lit + ",PCR", "#" + lit, "[" + lit + "]", "[" + lit + ",Y]", "<" + lit, ">" + lit], 4):
            texts.append([" ORG $1000\n", " %s %s\n" % (mn, opnd), " RTS\n"])
        # texts a tolerant front end might be tempted to tidy up IN PLACE (byte order mark, CR LF, tabs, trailing blanks, lower case):
        # whatever it does with them, the caller's list must come back as it was and the outcome must not depend on history
        base_ = texts[g % GROUP]
        texts.append(["\ufeff" + base_[0]] + base_[1:])
        texts.append([l.rstrip("\n") + "\r\n" for l in base_])
        texts.append([l.rstrip("\n").replace(" ", "\t", 1) + "  \t\n" for l in base_])
        texts.append([l.lower() if "FCC" not in l.upper() else l for l in base_] + ["\n", "   \n", "; trailing comment"])
        yield {"id": "group/%d" % g, "texts": texts}
    # include files that change between two assemblies in the same process (same name, same size, same second)
    for k in range(40 if thorough else 6):
        yield {"id": "include-rewrite/%d" % k, "kind": "include-rewrite", "k": k}


def _simple(x, depth=0):
    if isinstance(x, (int, float, str, bytes, bool, type(None))):
        return repr(x)
    if isinstance(x, re.Pattern):
        return "re(%r,%d)" % (x.pattern, x.flags)
    if isinstance(x, (list, tuple)):
        return "[" + ",".join(_simple(y, depth + 1) for y in x) + "]" if depth < 4 else "[...]"
    if isinstance(x, (set, frozenset)):
        return "{" + ",".join(sorted(_simple(y, depth + 1) for y in x)) + "}"
    if isinstance(x, dict):
        return "{" + ",".join("%s:%s" % (_simple(k, depth + 1), _simple(v, depth + 1)) for k, v in x.items()) + "}" if depth < 4 else "{...}"
    if isinstance(x, (types.FunctionType, types.BuiltinFunctionType, types.MethodType, type, types.ModuleType, staticmethod, classmethod, property)):
        return "<%s>" % type(x).__name__
    d = getattr(x, "__dict__", None)
    if d is not None and depth < 4:
        return "%s(%s)" % (type(x).__name__, ",".join("%s=%s" % (k, _simple(v, depth + 1)) for k, v in sorted(d.items())))
    return "<%s>" % type(x).__name__


def state_fingerprint():
    """M10: deep fingerprint of module-level state and shared default objects of all cocoasm modules"""
    out = {}
    n = 0
    for name, mod in sorted(sys.modules.items()):
        if not (name == "cocoasm" or name.startswith("cocoasm.")) or mod is None:
            continue
        for attr, val in sorted(vars(mod).items()):
            if attr.startswith("__"):
                continue
            key = "%s.%s" % (name, attr)
            if isinstance(val, types.FunctionType):
                out[key + ".defaults"] = _simple(val.__defaults__) + _simple(val.__kwdefaults__)
                n += 1
            elif isinstance(val, type):
                if val.__module__ != name:
                    continue
                for ca, cv in sorted(vars(val).items()):
                    if ca.startswith("__") and ca not in ("__init__",):
                        continue
                    if ca.startswith("_v_"):
                        continue
                    f = cv.__func__ if isinstance(cv, (staticmethod, classmethod)) else cv
                    if isinstance(f, types.FunctionType):
                        out["%s.%s.defaults" % (key, ca)] = _simple(f.__defaults__) + _simple(f.__kwdefaults__)
                    else:
                        out["%s.%s" % (key, ca)] = _simple(cv)
                    n += 1
            elif not isinstance(val, types.ModuleType):
                out[key] = _simple(val)
                n += 1
    return out, n


def fresh(texts, order, hashseed):
    env = dict(os.environ, PYTHONHASHSEED=str(hashseed), VERIF_REPO=REPO, PYTHONPATH=VERIF, PYTHONDONTWRITEBYTECODE="1")
    p = subprocess.run(["/venv/bin/python", "-m", "vlib.fpworker"], input=json.dumps({"programs": texts, "order": order}), capture_output=True,
                       text=True, env=env, cwd=VERIF, timeout=300)
    if p.returncode != 0:
        raise RuntimeError("fresh worker failed: " + p.stderr[-400:])
    return json.loads(p.stdout)["fps"]


def run_include_rewrite(case, ctx):
    import tempfile, shutil
    r = rng(ctx.seed, "C17", case["id"])
    d = tempfile.mkdtemp(prefix="c17-", dir=os.environ.get("VERIF_WORK"))
    cwd = os.getcwd()
    try:
        os.chdir(d)
        main = [" ORG $1000\n", "START LDA #1\n", " INCLUDE part.asm\n", "AFTER NOP\n", " JMP START\n"]
        versions = [[" LDB #%d\n" % r.randrange(256), " NOP\n"], [" LDB #%d\n" % r.randrange(256), " CLRA\n"], [" FCB %d,%d,%d\n" % (r.randrange(256), r.randrange(256), r.randrange(256))],
                    ["INNER LDX #$%04X\n" % r.randrange(65536)], [" RMB %d\n" % r.randrange(1, 9)]]
        # versions that make the assembly FAIL inside the include (bad line, missing nested include, nested cycle): a rejected
        # assembly must leave nothing behind that changes the next one
        open("loop.asm", "w").write(" INCLUDE part.asm\n")
        versions += [[" LDB #1\n", " XYZ 5\n"], [" INCLUDE nosuch.asm\n"], [" NOP\n", " INCLUDE loop.asm\n"], [" LDA #\n"]]
        r.shuffle(versions)
        versions.append([" LDB #%d\n" % r.randrange(256)])
        seen = []
        for vi, body in enumerate(versions):
            with open("part.asm", "w") as f:
                f.write("".join(body))
            os.utime("part.asm", (1700000000, 1700000000))            # identical timestamps: only the content differs
            got = fpworker.fingerprint(list(main))
            spliced = main[:2] + body + main[3:]
            want = fpworker.fingerprint(list(spliced))
            ctx.mon("include-rewrite-assemblies")
            failing = any(("XYZ" in l or "nosuch" in l or "loop.asm" in l or l.strip() == "LDA #") for l in body)
            if failing:
                if got["outcome"] != "diag":
                    ctx.violation("determinism", "include-rewrite", "FAILING-INCLUDE-NOT-A-DIAGNOSTIC:" + got["outcome"], {"show": "%s version %d" % (case["id"], vi), "include": "".join(body)})
                    return
                continue
            if got != want:
                ctx.outcome("stale-include")
                ctx.violation("determinism", "include-rewrite", "STALE-INCLUDE-CONTENT", {"show": "%s version %d: INCLUDE part.asm does not reflect the file's current content" % (case["id"], vi),
                                                                                        "include": "".join(body), "got": json.dumps(got)[:200], "want": json.dumps(want)[:200]})
                return
        # the same file name in another working directory
        os.mkdir("other")
        os.chdir("other")
        with open("part.asm", "w") as f:
            f.write(" FCB $EE,$EE\n")
        got = fpworker.fingerprint(list(main))
        want = fpworker.fingerprint(main[:2] + [" FCB $EE,$EE\n"] + main[3:])
        if got != want:
            ctx.outcome("stale-include")
            ctx.violation("determinism", "include-rewrite", "STALE-INCLUDE-CONTENT:other-cwd", {"show": "%s: same include name in another working directory served from the earlier one" % case["id"]})
            return
        ctx.outcome("include-rewrite-ok")
        ctx.nontriv(case["id"])
    finally:
        os.chdir(cwd)
        shutil.rmtree(d, ignore_errors=True)


def run_case(case, ctx):
    if case.get("kind") == "include-rewrite":
        return run_include_rewrite(case, ctx)
    texts = case["texts"]
    ctx.evaluations += len(texts) - 1            # one evaluation per text (each is assembled seven times and compared)
    r = rng(ctx.seed, "C17", case["id"], "orders")
    n = len(texts)
    warm = {}
    wit0 = {"show": case["id"]}
    # (1)(2)(3) in the monitored worker
    for rnd_pass in range(2):
        for i, lines in enumerate(texts):
            given = list(lines)
            snapshot = list(given)
            ident = [id(x) for x in given]
            s0, cnt = state_fingerprint()
            fp1 = fpworker.fingerprint(given)
            s1, _ = state_fingerprint()
            ctx.mon("M10.state-fingerprints")
            ctx.extra["m10_state_items"] = {"max": max(ctx.extra.get("m10_state_items", {}).get("max", 0), cnt)}
            if s0 != s1:
                changed = sorted(k for k in set(s0) | set(s1) if s0.get(k) != s1.get(k))
                # not a violation by itself: a transparent memo (a dict filled with results that never change) alters module state
                # and no output.  What changed is reported in the evidence; the verdict rests on the outputs under different histories.
                ctx.notes["M10.module-state-changed-by-an-assembly"] += 1
                for k_ in changed[:3]:
                    ctx.notes["M10.changed:" + k_[:60]] += 1
            if given != snapshot or [id(x) for x in given] != ident:
                ctx.violation("determinism", "input-lines", "INPUT-LIST-MODIFIED", {"show": "%s text %d" % (case["id"], i), "source": "".join(snapshot[:30])})
            fp2 = fpworker.fingerprint(list(lines))
            key = i
            warm.setdefault(key, []).append(("warm-pass%d" % rnd_pass, fp1))
            warm[key].append(("repeat-pass%d" % rnd_pass, fp2))
    # fresh processes, different orders and hash seeds
    orders = [(1, list(reversed(range(n)))), (12345, r.sample(range(n), n)), (r.randrange(1, 4000000), list(range(n)))]
    for hs, order in orders:
        fps = fresh(texts, order, hs)
        ctx.mon("fresh-process-runs")
        for i in range(n):
            warm[i].append(("fresh-hashseed-%s" % ("random" if hs not in (1, 12345) else hs), fps[str(i)]))
    for i in range(n):
        ref_label, ref = warm[i][0]
        bad = [(lab, fp) for lab, fp in warm[i][1:] if fp != ref]
        if bad:
            lab, fp = bad[0]
            diff = [k for k in set(ref) | set(fp) if ref.get(k) != fp.get(k)]
            ctx.outcome("nondeterministic")
            ctx.violation("determinism", "outputs", "DIFFERS:%s-vs-%s:%s" % (ref_label.split("-")[0], lab.split("-")[0], ",".join(sorted(diff))[:40]),
                          {"show": "%s text %d: %s differs between %s and %s" % (case["id"], i, diff, ref_label, lab), "source": "".join(texts[i][:30]),
                           "a": json.dumps(ref)[:300], "b": json.dumps(fp)[:300]}, {"outcome": ref.get("outcome")})
        else:
            ctx.outcome("deterministic:" + ref["outcome"])
            ctx.nontriv(tuple(texts[i]))
            ctx.cell("outcome/" + ref["outcome"])
    if len(ctx.samples) < 2:
        ctx.sample({"group": case["id"], "first_text": texts[0][:6], "fingerprint_digest": fpworker.digest(warm[0][0][1]), "executions_compared": len(warm[0])})


def gate(stats):
    out = []
    if not stats["monitors"].get("M10.state-fingerprints") or not stats["monitors"].get("fresh-process-runs"):
        out.append("M10 or the fresh-process control never ran")
    c = stats["cells"]
    if "outcome/ok" not in c or "outcome/diag" not in c:
        out.append("accepted and rejected programs were not both compared")
    if stats["extra"].get("m10_state_items", {}).get("max", 0) < 50:
        out.append("M10 saw fewer than 50 module-state items")
    return out
