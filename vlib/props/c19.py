"""C19 - INCLUDE is textual inclusion."""
import os, re, shutil, tempfile
from vlib import asmmon, fsmon, progs
from vlib.core import rng

PROPERTY = "C19"
CASE_TIMEOUT = 300
RULE = ("cases = accepted G4 programs (forward/backward references, branches and label,PCR operands) split at statement boundaries into an "
        "including file and 1-3 included files, nested to depth 3, include paths relative to the working directory; quick: up to 8 cut "
        "points per program, thorough: every cut point. The split program is assembled by the real Program.process with the temp "
        "directory as cwd and through assembler.py --print --symbols (in-process under the M6 audit hook); the spliced single file is "
        "the reference. Oracle: image, listing addresses and symbol table of the split program equal those of the spliced text; CLI "
        "stdout equal. Missing files and inclusion cycles (self, 2-cycle, 3-cycle) must end in a diagnostic (non-zero exit, message, "
        "no traceback, nesting depth bounded). distinct_nontrivial = distinct (program, cut layout) pairs compared.")
ASSUMPTIONS = ["an INCLUDE line carries no label and the included file name has no blanks"]


def setup(ctx):
    asmmon.install()
    fsmon.install()
    ctx.tmp = tempfile.mkdtemp(prefix="c19-", dir=os.environ.get("VERIF_WORK"))


def teardown(ctx):
    shutil.rmtree(ctx.tmp, ignore_errors=True)


def gen_cases(tier, seed):
    thorough = tier == "thorough"
    for k in range(3000 if thorough else 120):
        r = rng(seed, "C19", k)
        p = progs.gen_program(r, r.choice([6, 10, 20, 40]), origin=r.choice([0x1000, 0x80, None, 0xC000]))
        lines = progs.render(p)
        n = len(lines)
        cuts = list(range(1, n)) if thorough and n <= 24 else sorted(r.sample(range(1, n), min(8, n - 1)))
        for c in cuts:
            shape = r.choice(["one", "two", "nested2", "nested3", "tail", "head", "twice", "subdir", "dotdot", "dotslash", "dotfile", "absolute", "substring-names", "end-in-include"])
            yield {"id": "split/%d/%d/%s" % (k, c, shape), "lines": lines, "cut": c, "shape": shape}
    for sh in ("self", "cycle2", "cycle3", "missing", "missing-nested"):
        yield {"id": "bad/" + sh, "shape": sh, "lines": None, "cut": 0}


SNIPPETS = [[" NOP\n", " LDA #1\n"], [" FCB 1,2,3\n"], [" PSHS A,B\n", " CLRA\n", " PULS A,B\n"], [" RMB 5\n", " FDB $1234\n"], [" LDX #$1234\n", " LEAX 1,X\n", " STX $4000\n"]]


def layout(lines, cut, shape, r, root=None):
    """-> ({filename: text}, spliced reference lines, main file name, cwd relative to the temp dir); main is the including file"""
    files = _layout(lines, cut, shape if shape in ("one", "two", "nested2", "nested3", "tail", "head") else "one", r)
    ref = lines
    main, cwd = "main.asm", "."
    if shape == "twice":
        n = len(lines)
        a, b = cut, min(n, cut + max(1, (n - cut) // 2))
        snip = r.choice(SNIPPETS)
        files = {"main.asm": lines[:a] + [" INCLUDE snip.asm\n"] + lines[a:b] + [" INCLUDE snip.asm\n"] + lines[b:], "snip.asm": snip}
        ref = lines[:a] + snip + lines[a:b] + snip + lines[b:]
    elif shape == "substring-names":
        files = _layout(lines, cut, "nested3", r)
        ren = {"part1.asm": r.choice(["inc/defs.asm", "audio.asm", "xdefs.asm"]), "part2.asm": "defs.asm" if True else "", "part3.asm": "s.asm"}
        if ren["part1.asm"] == "audio.asm":
            ren["part2.asm"] = "io.asm"
            ren["part3.asm"] = "o.asm"
        files = {ren.get(k, k): [l.replace("part1.asm", ren["part1.asm"]).replace("part2.asm", ren["part2.asm"]).replace("part3.asm", ren["part3.asm"]) for l in v] for k, v in files.items()}
    elif shape == "end-in-include":
        n = len(lines)
        a, b = cut, min(n, cut + max(1, (n - cut) // 2))
        files = {"main.asm": lines[:a] + [" INCLUDE part1.asm\n"] + lines[b:], "part1.asm": lines[a:b] + [" END\n"]}
        ref = lines[:a] + lines[a:b] + [" END\n"] + lines[b:]
    elif shape in ("subdir", "dotdot", "dotslash", "dotfile", "absolute"):
        newname = {"subdir": "lib/part1.asm", "dotdot": "../part1.asm", "dotslash": "./part1.asm", "dotfile": ".part1.asm",
                   "absolute": os.path.join(root, "abs", "part1.asm")}[shape]
        files = {k: [l.replace("part1.asm", newname) for l in v] for k, v in files.items()}
        body = files.pop("part1.asm")
        if shape == "subdir":
            files["lib/part1.asm"] = body
        elif shape == "dotdot":
            files = {"sub/" + k: v for k, v in files.items()}
            files["part1.asm"] = body
            files["sub/part1.asm"] = [" FCB $EE,$EE,$EE,$EE,$EE\n"]      # a decoy with the same name in the working directory
            main, cwd = "main.asm", "sub"
        elif shape == "dotslash":
            files["part1.asm"] = body
        elif shape == "dotfile":
            files[".part1.asm"] = body
            files["part1.asm"] = [" FCB $EE,$EE,$EE\n"]                   # decoy
        else:
            files["abs/part1.asm"] = body
            files["part1.asm"] = [" FCB $EE,$EE,$EE\n"]                   # decoy
    return files, ref, main, cwd


def _layout(lines, cut, shape, r):
    n = len(lines)
    a, b = cut, min(n, cut + max(1, (n - cut) // 2))
    if shape == "one":
        return {"main.asm": lines[:a] + [" INCLUDE part1.asm\n"] + lines[b:], "part1.asm": lines[a:b]}
    if shape == "tail":
        return {"main.asm": lines[:a] + [" INCLUDE part1.asm\n"], "part1.asm": lines[a:]}
    if shape == "head":
        return {"main.asm": [" INCLUDE part1.asm\n"] + lines[a:], "part1.asm": lines[:a]}
    if shape == "two":
        m = (a + n) // 2
        return {"main.asm": lines[:a] + [" INCLUDE part1.asm\n", " INCLUDE part2.asm\n"], "part1.asm": lines[a:m], "part2.asm": lines[m:]}
    if shape == "nested2":
        m = (a + b) // 2
        return {"main.asm": lines[:a] + [" INCLUDE part1.asm\n"] + lines[b:], "part1.asm": lines[a:m] + [" INCLUDE part2.asm\n"], "part2.asm": lines[m:b]}
    m1 = a + (b - a) // 3
    m2 = a + 2 * (b - a) // 3
    return {"main.asm": lines[:a] + [" INCLUDE part1.asm\n"] + lines[b:], "part1.asm": lines[a:m1] + [" INCLUDE part2.asm\n"] + lines[m2:b],
            "part2.asm": [" INCLUDE part3.asm\n"], "part3.asm": lines[m1:m2]}


def run_bad(case, ctx, d):
    sh = case["shape"]
    files = {"self": {"main.asm": " NOP\n INCLUDE main.asm\n"},
             "cycle2": {"main.asm": " NOP\n INCLUDE b.asm\n", "b.asm": " CLRA\n INCLUDE main.asm\n"},
             "cycle3": {"main.asm": " INCLUDE b.asm\n", "b.asm": " INCLUDE c.asm\n", "c.asm": " NOP\n INCLUDE main.asm\n"},
             "missing": {"main.asm": " NOP\n INCLUDE nosuch.asm\n"},
             "missing-nested": {"main.asm": " NOP\n INCLUDE b.asm\n", "b.asm": " INCLUDE nosuch.asm\n"}}[sh]
    for nme, t in files.items():
        open(os.path.join(d, nme), "w").write(t)
    o = asmmon.assemble(open("main.asm").readlines(), budget=3_000_000, keep_program=False)
    res = fsmon.run_cli("assembler.py", ["main.asm", "--print"], d)
    wit = {"show": "%s -> %s ; CLI exit %s %s" % (case["id"], o.brief()[:70], res.code, res.out[-60:].replace("\n", " | "))}
    if o.outcome != "diag":
        ctx.violation("include", "bad." + sh, "NOT-A-DIAGNOSTIC:%s:%s" % (o.outcome, o.exc), wit)
        ctx.outcome("bad-include-not-diag")
    elif res.exc or res.code == 0 or not res.out.strip():
        ctx.violation("include", "bad." + sh, "CLI:%s" % ("traceback:" + res.exc if res.exc else ("exit-0" if res.code == 0 else "silent")), wit)
        ctx.outcome("bad-include-cli")
    else:
        ctx.outcome("bad-include-diagnosed")
        ctx.nontriv(case["id"])
        ctx.cell("diagnosed/" + sh)


def run_case(case, ctx):
    d = tempfile.mkdtemp(prefix="i-", dir=ctx.tmp)
    cwd = os.getcwd()
    os.chdir(d)
    try:
        if case["lines"] is None:
            return run_bad(case, ctx, d)
        r = rng(ctx.seed, "C19", case["id"])
        files, lines, main, sub = layout(case["lines"], case["cut"], case["shape"], r, root=d)
        ref = asmmon.assemble(lines, keep_program=False)
        if ref.outcome != "ok":
            ctx.outcome("base-not-accepted")
            return
        for nme, t in files.items():
            os.makedirs(os.path.dirname(os.path.join(d, nme)) or d, exist_ok=True)
            open(os.path.join(d, nme), "w").write("".join(t))
        if sub != ".":
            os.chdir(os.path.join(d, sub))
        wd = os.getcwd()
        open(os.path.join(wd, "whole.asm"), "w").write("".join(lines))
        o = asmmon.assemble(open("main.asm").readlines(), keep_program=False)
        ctx.mon("M1.asm-post", 2)
        wit = {"show": "%s -> %s" % (case["id"], o.brief()[:80]), "files": {k: "".join(v)[:600] for k, v in files.items()}}
        form = "split." + case["shape"]
        if o.outcome != "ok":
            ctx.violation("include", form, "SPLIT-NOT-ACCEPTED:%s:%s" % (o.outcome, o.exc), wit)
            ctx.outcome("split-rejected")
            return
        if bytes(o.image) != bytes(ref.image):
            ctx.violation("include", form, "IMAGE-DIFFERS", dict(wit, split_image=bytes(o.image).hex()[:80], spliced_image=bytes(ref.image).hex()[:80]))
            ctx.outcome("differs")
            return
        if [(s["addr"], s["mn"], s["label"]) for s in o.stmts] != [(s["addr"], s["mn"], s["label"]) for s in ref.stmts]:
            ctx.violation("include", form, "LISTING-DIFFERS", wit)
            ctx.outcome("differs")
            return
        if asmmon.parse_symbols(o.symbols) != asmmon.parse_symbols(ref.symbols) or o.origin != ref.origin:
            ctx.violation("include", form, "SYMBOLS-DIFFER", dict(wit, split=o.symbols[:8], spliced=ref.symbols[:8]))
            ctx.outcome("differs")
            return
        # CLI witness
        r1 = fsmon.run_cli("assembler.py", ["main.asm", "--print", "--symbols"], wd)
        r2 = fsmon.run_cli("assembler.py", ["whole.asm", "--print", "--symbols"], wd)
        ctx.mon("M6.cli-runs", 2)
        # the property speaks of listing ADDRESSES and the symbol table: compare the address and code columns of the listing lines and the
        # symbol lines, not the whole text (a listing may well say which file a statement came from)
        def essence(text):
            out = []
            for l in text.splitlines():
                m = asmmon.LISTING_RE.match(l)
                if m:
                    out.append(("stmt", m.group(1), m.group(2).strip()))
                elif re.match(r"^\$[0-9A-Fa-f]* +\S+$", l):
                    out.append(("sym",) + tuple(l.split()))
            return out
        if r1.code != r2.code or essence(r1.out) != essence(r2.out) or not essence(r1.out) or r1.exc:
            ctx.violation("include", form, "CLI-OUTPUT-DIFFERS", dict(wit, split_out=r1.out[-300:], spliced_out=r2.out[-300:]))
            ctx.outcome("differs")
            return
        ctx.outcome("ok")
        ctx.nontriv(case["id"])
        ctx.cell(form)
        if len(ctx.samples) < 2 and len(lines) < 14:
            ctx.sample({"case": case["id"], "files": {k: [l.rstrip() for l in v] for k, v in files.items()}, "image": bytes(o.image).hex()})
    finally:
        os.chdir(cwd)
        shutil.rmtree(d, ignore_errors=True)


def gate(stats):
    out = []
    c = stats["cells"]
    for sh in ("one", "two", "nested2", "nested3", "tail", "head", "twice", "subdir", "dotdot"):
        if "split." + sh not in c:
            out.append("no accepted split of shape " + sh)
    for sh in ("self", "cycle2", "missing"):
        if "diagnosed/" + sh not in c and not stats["outcomes"].get("bad-include-not-diag") and not stats["outcomes"].get("bad-include-cli"):
            out.append("bad include case %s not run" % sh)
    return out
