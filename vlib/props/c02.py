"""C02 - listing addresses, symbol values and the emitted image agree."""
from vlib import asmmon, asmjudge, forms, progs
from vlib.forms import POS, NEG
from vlib.ref import mc6809 as R
from vlib.core import rng

PROPERTY = "C02"
SHARDED_GEN = True
RULE = ("cases = whole programs: (a) G4 random programs (5-120 statements quick, up to 300 thorough; every statement kind, labels "
        "anywhere, forward/backward references, origin none / <$100 / anywhere); (b) structured programs: one G1 operand form "
        "(representative mnemonics x all forms x boundary values) followed by a labelled NOP and a JMP to it; (c) programs that "
        "must be rejected: duplicate label, undefined symbol in each operand position; (d) second ORG / code before ORG "
        "(reject or stay loadable). Oracle = arithmetic over what hook M1 and the public listing/symbol API show: I1 next address "
        "= address + bytes emitted, I2 image = concatenation, I3 offset in image = listing address - reported origin, I4 label "
        "value = listing address of its statement / EQU value = its constant, I7 nothing beyond $FFFF. "
        "distinct_nontrivial = distinct ACCEPTED programs on which all invariants were evaluated, plus distinct must-reject "
        "programs observed rejected.")
ASSUMPTIONS = ["addresses are read from the public listing (Program.get_statements) and symbol table lines",
               "directives that emit nothing and carry no label may show any address"]
REPS = ["LDA", "LDX", "LDY", "LEAX", "NEG", "CMPU", "STB", "JSR", "ADDD"]


def setup(ctx):
    asmmon.install()


def gen_cases(tier, seed, shard, nshards):
    thorough = tier == "thorough"
    g = 0
    nprog = 30000 if thorough else 700
    for k in range(nprog):
        if k % nshards != shard:
            continue
        r = rng(seed, "C02", "prog", k)
        n = r.choice([5, 8, 12, 20, 40, 80, 120]) if not thorough else r.choice([5, 12, 30, 60, 120, 200, 300])
        org = r.choice([None, r.randrange(0, 256), r.randrange(256, 60000), 0, 0x100, 0xE00])
        p = progs.gen_program(r, n, origin=org)
        if r.random() < 0.3:
            p["name"] = "PROG%d" % (k % 10)
        lines = progs.render(p)
        skip = len(lines) - len(p["stmts"]) - len([e for e in p["equs"] if e["pos"] == "bottom"])
        kinds = [None] * skip + [s["kind"] for s in p["stmts"]]
        yield {"id": "prog/%d" % k, "lines": lines, "kinds": kinds, "mode": "layout",
               "equs": {e["label"]: e["value"] for e in p["equs"]}}
    # structured: every form followed by a label
    vals = list(POS) + list(NEG)
    for rep in (REPS if not thorough else [c for s, c in forms.mem_mnemonics() if s == c]):
        g += 1
        if g % nshards != shard:
            continue
        fl = list(forms.fixed_forms(rep, rep)) + list(forms.value_forms(rep, rep, vals, full_spell=(rep in REPS)))
        for f in fl:
            if f.expect is None:
                continue
            lines = [" ORG $3000\n", " %s %s\n" % (f.mn, f.operand), "AFTER NOP\n", " JMP AFTER\n"]
            yield {"id": "form/%s/%s/%s" % (f.form, f.mn, f.operand), "lines": lines, "kinds": [None, "form." + f.form, None, None],
                   "mode": "layout", "traits": f.traits}
    g += 1
    if g % nshards == shard:
        for f in list(forms.reglist_forms(None, with_d=False)) + list(forms.regpair_forms()):
            if f.expect is not None:
                yield {"id": "form/%s/%s/%s" % (f.form, f.mn, f.operand), "mode": "layout", "kinds": [None, "form." + f.form, None, None],
                       "lines": [" ORG $3000\n", " %s %s\n" % (f.mn, f.operand), "AFTER NOP\n", " JMP AFTER\n"]}
        for src, canon in R.all_mnemonics():
            if "inh" in R.MODES[canon]:
                yield {"id": "form/inh/%s" % src, "mode": "layout", "kinds": [None, "form.inh", None, None],
                       "lines": [" ORG $3000\n", " %s \n" % src, "AFTER NOP\n", " JMP AFTER\n"]}
        # every data directive form followed by a label (zero-length and boundary sizes included)
        for mn, ops in (("RMB", ["0", "1", "2", "255", "256", "$0", "$10", "SZ"]), ("FCB", ["0", "255", "1,2,3", "-1", "$7F,$80", "SZ"]),
                        ("FDB", ["0", "65535", "1,2", "-1", "AFTER", "SZ"]), ("FCC", ['"A"', '""', '"HELLO WORLD"', "/a;b/", '"x"   ; c']),
                        ("EQU", ["5"]), ("SETDP", ["$10"]), ("NAM", ["PRG"]), ("END", ["", "AFTER"])):
            for op in ops:
                lab = "QQ " if mn == "EQU" else " "
                yield {"id": "data/%s/%s" % (mn, op), "mode": "layout", "kinds": [None, None, "data." + mn.lower(), None, None],
                       "lines": [" ORG $3000\n", "SZ EQU 3\n", "%s%s %s\n" % (lab, mn, op), "AFTER NOP\n", " JMP AFTER\n"], "equs": {"SZ": 3}}
        # one label referenced at several operand widths, and label arithmetic in one-byte slots, each followed by labels
        for org in (0x80, 0x10, 0x1000):
            body = ["VAR RMB 1\n", "W2 RMB 2\n", "F1 FCB VAR\n", "F2 FDB VAR\n", "F3 FCB VAR\n", "I1 LDA <VAR\n", "I2 LDX #VAR\n", "I3 LDA VAR\n", "I4 LDA #W2-VAR\n",
                    "I5 LDB #LAST-W2\n", "F4 FCB W2-VAR\n", "F5 FDB LAST-VAR\n", "I6 LDA >VAR\n", "I7 LDX [VAR]\n", "F6 FDB VAR\n", "I8 CMPA #W2-VAR\n", "LAST NOP\n"]
            if org >= 0x100:
                body = [l for l in body if "<VAR" not in l and not l.startswith("F1 ") and not l.startswith("F3 ")]
            for rot in range(0, len(body) - 3, 3):
                lines = [" ORG $%X\n" % org] + body[:2] + body[2 + rot:-1] + body[2:2 + rot] + body[-1:]
                yield {"id": "shared/%x/%d" % (org, rot), "mode": "layout", "kinds": None, "form": "shared-label-widths", "lines": lines}
        # must-reject programs
        for mn in ("NOP", "LDA #1", "FCB 1,2", "RMB 4", "EQU 5", "FDB 1", "FCC \"AB\""):
            yield {"id": "dup/%s" % mn, "mode": "reject", "form": "duplicate-label",
                   "lines": [" ORG $1000\n", "DUP NOP\n", " LDA #2\n", "DUP %s\n" % mn, " RTS\n"]}
            yield {"id": "dup2/%s" % mn, "mode": "reject", "form": "duplicate-label",
                   "lines": ["DUP %s\n" % mn, " LDA #2\n", "DUP NOP\n"]}
        for opnd in ("UNDEF", "#UNDEF", "<UNDEF", ">UNDEF", "[UNDEF]", "UNDEF,X", "[UNDEF,Y]", "UNDEF,PCR", "[UNDEF,PCR]", "UNDEF+1",
                     "#UNDEF+1", "1+UNDEF", "UNDEF-DEF", "DEF+UNDEF"):
            for mn in ("LDA", "LDX", "JMP", "LEAX"):
                if mn in ("JMP", "LEAX") and opnd.startswith("#"):
                    continue
                if mn == "LEAX" and "," not in opnd and not opnd.startswith("["):
                    continue
                yield {"id": "undef/%s/%s" % (mn, opnd), "mode": "reject", "form": "undefined-symbol",
                       "lines": [" ORG $1000\n", "DEF NOP\n", " %s %s\n" % (mn, opnd), " RTS\n"]}
        # ... and in every directive that takes a value (an origin, a direct page or an entry point that names nothing is no less undefined)
        for stmt in ("FCB UNDEF", "FDB UNDEF", "RMB UNDEF", "FCB 1,UNDEF", "FDB UNDEF,2", "FCB UNDEF+1", "FDB 1,DEF-UNDEF", "SETDP UNDEF", "SETDP UNDEF/256",
                     "END UNDEF", "END UNDEF+1", "END DEF+UNDEF"):
            yield {"id": "undef/dir/%s" % stmt, "mode": "reject", "form": "undefined-symbol",
                   "lines": [" ORG $1000\n", "DEF NOP\n", " %s\n" % stmt, " RTS\n"]}
        for stmt in ("X1 EQU UNDEF", "X1 EQU UNDEF+1", "X1 EQU 2*UNDEF"):
            yield {"id": "undef/dir/%s" % stmt, "mode": "reject", "form": "undefined-symbol",
                   "lines": [" ORG $1000\n", "DEF NOP\n", "%s\n" % stmt, " LDA #X1\n"]}
        for opnd in ("UNDEF", "UNDEF+1", "K+UNDEF", "256*UNDEF"):
            yield {"id": "undef/org/%s" % opnd, "mode": "reject", "form": "undefined-symbol",
                   "lines": ["K EQU 2\n", " ORG %s\n" % opnd, "DEF NOP\n", " RTS\n"]}
        for mn in ("BRA", "LBRA", "BSR", "LBEQ", "BNE"):
            yield {"id": "undef/%s" % mn, "mode": "reject", "form": "undefined-symbol",
                   "lines": [" ORG $1000\n", "DEF NOP\n", " %s UNDEF\n" % mn, " RTS\n"]}
        # the top of memory: nothing may be laid out beyond $FFFF (reject, or never emit there)
        for lines in ([" ORG $FFFE\n", " LDX #1\n"], [" ORG $FFFF\n", " LDA #1\n"], [" ORG $FFF0\n", " RMB 20\n", "L1 NOP\n"], [" ORG $FFFE\n", " LDA #1\n", "L2 NOP\n"],
                      [" ORG $FFFD\n", " JMP L3\n", "L3 NOP\n"], [" ORG $FFFC\n", "L4 FDB 1,2,3\n"], [" ORG $FFFE\n", " LDA #1\n", " END\n"], [" ORG $FFFF\n", "L5 NOP\n"]):
            yield {"id": "top/" + "".join(lines).replace("\n", "|").strip(), "mode": "layout", "kinds": None, "form": "top-of-memory", "lines": lines}
        # multiple origins / code before ORG: reject, or stay loadable at the reported origin
        for a, b in ((0x1000, 0x2000), (0x2000, 0x1000), (0x1000, 0x1002), (0x1000, 0x1000), (0x10, 0x2000), (0x1000, 0x1001)):
            yield {"id": "org2/%x/%x" % (a, b), "mode": "layout", "kinds": None, "form": "second-org",
                   "lines": [" ORG $%X\n" % a, "A1 LDA #1\n", " NOP\n", " ORG $%X\n" % b, "B1 LDB #2\n", " JMP A1\n", " JMP B1\n"]}
        for a in (0x1000, 0x10, 0x3):
            yield {"id": "codefirst/%x" % a, "mode": "layout", "kinds": None, "form": "code-before-org",
                   "lines": ["A1 LDA #1\n", " NOP\n", " ORG $%X\n" % a, "B1 LDB #2\n", " JMP A1\n", " JMP B1\n"]}
            yield {"id": "datafirst/%x" % a, "mode": "layout", "kinds": None, "form": "code-before-org",
                   "lines": ["A1 FCB 1,2,3\n", " ORG $%X\n" % a, "B1 LDB #2\n", " LDX #A1\n"]}


def run_case(case, ctx):
    o = asmmon.assemble(case["lines"], keep_program=False)
    ctx.mon("M5.outcome")
    if case["mode"] == "reject":
        if o.outcome == "ok":
            ctx.outcome("accepted-invalid")
            ctx.violation("reject", case["form"], "ACCEPTED-INVALID", {"source": "".join(case["lines"]), "show": case["id"] + " -> " + o.brief()})
        elif o.outcome == "diag":
            ctx.outcome("rejected")
            ctx.nontriv(case["lines"])
            ctx.cell("rejected/" + case["form"])
        else:
            ctx.outcome("not-ok:" + o.outcome)     # internal error instead of a diagnostic: C13's subject
        return
    if o.outcome != "ok":
        ctx.outcome("not-accepted:" + o.outcome)
        ctx.notes["not-accepted:%s:%s" % (o.exc, o.where)] += 1
        return
    ctx.mon("M1.asm-post")
    hm = asmmon.hex_column_mismatches(o)
    if hm:
        ctx.notes["info:listing-hex-column-not-a-prefix-of-emitted-bytes (not judged)"] += hm
    vs = asmmon.layout_violations(o)
    syms = asmmon.parse_symbols(o.symbols)
    for name, val in (case.get("equs") or {}).items():
        if name in syms and syms[name] != val:
            vs.append(("I4:equ-value", {"symbol": name, "table": syms[name], "defined": val}))
    if vs:
        ctx.outcome("layout-violation")
        kinds = case.get("kinds")
        for sym, det in vs[:2]:
            form = case.get("form") or "program"
            st = det.get("stmt")
            if kinds and st is not None:
                # blame the statement whose emitted size and reserved size disagree: the one before the break
                cand = None
                if sym.startswith("I1") or sym.startswith("I3"):
                    # find the first statement whose bytes != next addr - addr
                    for a, b in zip(o.stmts, o.stmts[1:]):
                        if a["addr"] is not None and b["addr"] is not None and b["mn"] != "ORG" and b["addr"] - a["addr"] != len(a["bytes"]):
                            cand = a["i"]
                            break
                if cand is None:
                    cand = st
                if cand < len(kinds) and kinds[cand]:
                    form = ("prog." if case["id"].startswith("prog/") else "") + kinds[cand]
                det = dict(det, blamed=o.listing[cand].rstrip() if cand < len(o.listing) else None)
                if sym.startswith("I1") and cand is not None and cand + 1 < len(o.stmts):
                    a, b = o.stmts[cand], o.stmts[cand + 1]
                    if a["addr"] is not None and b["addr"] is not None:
                        sym = "I1:emitted%+d-vs-reserved" % (len(a["bytes"]) - (b["addr"] - a["addr"]))
            ctx.violation("layout", form, sym, {"source": "".join(case["lines"]) if len(case["lines"]) < 40 else "".join(case["lines"][:200]),
                                                "show": (det.get("blamed") or case["id"])[:60].strip() + " " + sym, "detail": det},
                          case.get("traits") and {k: v for k, v in case["traits"].items() if k in ("op16", "ind", "vclass")})
        return
    ctx.outcome("ok")
    ctx.nontriv(case["lines"])
    for k in set(case.get("kinds") or []) - {None}:
        ctx.cell(k)
    if case.get("form"):
        ctx.cell(case["form"])
    if case["id"].startswith("prog/") and len(case["lines"]) < 14:
        ctx.sample({"source": case["lines"], "listing": [l.rstrip() for l in o.listing], "symbols": o.symbols, "image": bytes(o.image).hex()}, limit=2)


def gate(stats):
    out = []
    oc = stats["outcomes"]
    if oc.get("ok", 0) < 50:
        out.append("fewer than 50 accepted programs had their layout invariants evaluated")
    if oc.get("rejected", 0) == 0:
        out.append("no must-reject program observed rejected")
    return out
