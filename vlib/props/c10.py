"""C10 - an existing target file is never modified unless append applies to it."""
import os, shutil, tempfile, subprocess, re
from vlib import mediamon, fsmon, hostcli, asmmon
from vlib.ref import tape as RT, dskfs as RD
from vlib.core import rng, REPO

PROPERTY = "C10"
CASE_TIMEOUT = 300
RULE = ("cases = the full configuration matrix {--to_bin,--to_cas,--to_dsk} x {append, no append} x pre-existing target {absent, empty, "
        "cassette image, disk image with files, formatted disk image without files, raw binary, raw binaries of only $00 / $55 bytes (tape silence or leader and no block), arbitrary bytes, cassette image >= 161280 bytes (three fillings of the bytes a disk "
        "parser looks at, and one whose file data shows a one-file disk at those offsets), 161280 arbitrary bytes} x {assembler.py, file_util.py}, exhaustive in both tiers, plus random sequences of "
        "2-4 such invocations on one target. Each invocation runs the real CLI in-process (runpy) under the M6 audit hook with "
        "content hashes before/after; thorough re-runs every cell as a real subprocess under strace and compares the syscall-level "
        "write set with the audit-hook write set. Oracle R6: the target may change only if append was given and the reference "
        "parsers (R4/R5) classify the existing content as the container kind being written; otherwise bytes must be identical and the "
        "tool must print an explanation; when the target does change or is new it must be a complete image of the requested kind "
        "holding the old files followed by the new one. Don't-care cells (only with --append): empty existing file, --to_bin onto raw bytes. "
        "distinct_nontrivial = distinct (cell or sequence) executions judged.")
ASSUMPTIONS = ["kind of existing content is decided by the reference parsers: disk = 161280 bytes passing fsck; cassette = at least one complete "
               "well-formed file and nothing malformed; raw = everything else",
               "'told why' = the tool printed something and did not print its success message"]
SWITCH_KIND = {"--to_bin": "raw", "--to_cas": "cassette", "--to_dsk": "disk"}
PRES = ["absent", "empty", "cassette", "disk", "blankdisk", "rawbin", "arbitrary", "bigcas-zero", "bigcas-text", "alignedcas-zero", "mimiccas", "rawbin-zeros", "rawbin-55", "arb161k"]
ASM = " NAM NEWPRG\n ORG $2000\nSTART LDA #1\n STA $400\n RTS\n"
ASM_IMAGE = bytes([0x86, 0x01, 0xB7, 0x04, 0x00, 0x39])
NEW_FILE = {"name": "NEWPRG", "type": 2, "dtype": 0, "load": 0x2000, "exec": 0x2000, "data": ASM_IMAGE}
SRC_FILE = {"name": "SRCFILE", "type": 2, "dtype": 0, "load": 0x3000, "exec": 0x3005, "data": bytes(range(40))}


def tf(name, data, load=0x1000, exec_=0x1000, t=2, dt=0):
    return dict(name=name.ljust(8).encode(), ftype=t, dtype=dt, load=load, exec=exec_, data=bytes(data))


def pre_content(kind, r):
    if kind == "absent":
        return None
    if kind == "empty":
        return b""
    if kind == "cassette":
        return RT.generate([tf("OLD1", b"abc"), tf("OLD2", bytes(300))], r)
    if kind == "disk":
        img = RD.blank()
        RD.write_file(img, dict(name=b"OLD1", ext=b"BIN", ftype=2, ascii=0, load=0x1000, exec=0x1000, data=b"abc"), [3])
        RD.write_file(img, dict(name=b"OLD2", ext=b"BIN", ftype=2, ascii=0, load=0x1100, exec=0x1100, data=bytes(3000)), [40, 7])
        return bytes(img)
    if kind == "blankdisk":
        return bytes(RD.blank())          # a formatted disk that holds no file yet is still a disk image
    if kind == "rawbin":
        return bytes([0x86, 0x01, 0x39, 0x12, 0x12])
    if kind == "rawbin-zeros":
        return bytes(300)                 # a zero-filled placeholder: tape silence only, no block, so not a cassette (wave 10, C10-P)
    if kind == "rawbin-55":
        return b"\x55" * 40 + bytes(3)    # the --to_bin image of FCB $55,... : a leader and nothing after it
    if kind == "arbitrary":
        return bytes(range(256)) * 3
    if kind.startswith("bigcas"):
        fill = {"bigcas-zero": 0x00, "bigcas-ff": 0xFF, "bigcas-text": 0x41}[kind]
        return RT.generate([tf("BIG%d" % i, bytes([fill]) * 60000) for i in range(3)], r)
    if kind.startswith("alignedcas"):
        return aligned_bigcas({"alignedcas-zero": 0x00, "alignedcas-ff": 0xFF}[kind])
    if kind == "mimiccas":
        return mimic_bigcas()
    if kind == "arb161k":
        return bytes([0x41]) * 161280
    raise ValueError(kind)


_ALIGNED = {}


def standard_tape(files):
    """tape laid out the way Color BASIC (and the tool) writes it: 128-byte blank + 128-byte leader, 255-byte blocks"""
    out = bytearray()
    for f in files:
        out += bytes(128) + b"\x55" * 128
        out += RT.mk_block(0, f["name"] + bytes([f["ftype"], f["dtype"], 0, f["load"] >> 8, f["load"] & 255, f["exec"] >> 8, f["exec"] & 255]))
        out += bytes(128) + b"\x55" * 128
        for i in range(0, len(f["data"]), 255):
            out += RT.mk_block(1, f["data"][i:i + 255])
        out += RT.mk_block(0xFF, b"")
    return bytes(out)


def aligned_bigcas(fill):
    """a well-formed cassette >= 161280 bytes whose bytes at the 72 directory-entry offsets and FAT are all $00/$FF
    (found by shifting the block grid with the length of a first small file)"""
    if fill in _ALIGNED:
        return _ALIGNED[fill]
    for shift in range(1, 600):
        t = standard_tape([tf("SHIFT", bytes([fill]) * shift)] + [tf("BIG%d" % i, bytes([fill]) * 60000) for i in range(3)])
        if len(t) >= RD.IMAGE and all(t[RD.DIR + 32 * k] in (0, 0xFF) for k in range(72)):
            _ALIGNED[fill] = t
            return t
    raise AssertionError("no alignment found")


def mimic_bigcas():
    """a well-formed cassette > 161280 bytes whose file DATA shows a one-file disk to a reader that looks only at the offsets
    Disk BASIC uses: allocation-table entry 0 = $C1, first directory entry HIDDEN.BIN (ASCII, granule 0, 5 bytes), every other
    entry starting $00.  It is tape blocks from end to end and longer than a disk image, so it is a cassette (wave 10, C10-N)"""
    if "mimic" in _ALIGNED:
        return _ALIGNED["mimic"]
    want = {RD.FAT: 0xC1}
    for i, v in enumerate(b"HIDDEN  BIN" + bytes([0x00, 0xFF, 0x00, 0x00, 0x05])):
        want[RD.DIR + i] = v
    for shift in range(1, 600):
        files = [tf("SHIFT", bytes(shift))] + [tf("BIG%d" % i, bytes(60000)) for i in range(3)]
        t = standard_tape(files)
        if len(t) <= RD.IMAGE or not all(t[RD.DIR + 32 * k] in (0, 0xFF) for k in range(72)):
            continue
        where, p = {}, 0
        for k, f in enumerate(files):
            p += 128 + 128 + 21 + 128 + 128
            for d in range(0, len(f["data"]), 255):
                ln = min(255, len(f["data"]) - d)
                p += 4
                for o in want:
                    if p <= o < p + ln:
                        where[o] = (k, d + o - p)
                p += ln + 2
            p += 6
        if len(where) != len(want) or p != len(t):
            continue
        for o, (k, d) in where.items():
            data = bytearray(files[k]["data"])
            data[d] = want[o]
            files[k]["data"] = bytes(data)
        t = standard_tape(files)
        if t[RD.DIR:RD.DIR + 11] == b"HIDDEN  BIN" and t[RD.FAT] == 0xC1:
            _ALIGNED["mimic"] = t
            return t
    raise AssertionError("no alignment found")


def cells():
    for tool in ("assembler", "file_util"):
        for sw in ("--to_bin", "--to_cas", "--to_dsk"):
            for app in (False, True):
                for pre in PRES:
                    yield {"tool": tool, "switch": sw, "append": app, "pre": pre}


def gen_cases(tier, seed):
    thorough = tier == "thorough"
    for c in cells():
        yield dict(c, id="cell/%s/%s/%s/%s" % (c["tool"], c["switch"], "append" if c["append"] else "noappend", c["pre"]), kind="cell")
    for tool in ("assembler", "file_util"):
        for sw in ("--to_bin", "--to_cas", "--to_dsk"):
            for app in (False, True):
                yield {"id": "tilde/%s/%s/%s" % (tool, sw, app), "kind": "tilde", "tool": tool, "switch": sw, "append": app, "pre": "cassette"}
    allc = list(cells())
    for k in range(1500 if thorough else 100):
        r = rng(seed, "C10", "seq", k)
        first = r.choice(PRES)
        steps = [dict(r.choice(allc)) for _ in range(r.randrange(2, 5))]
        yield {"id": "seq/%d" % k, "kind": "seq", "pre": first, "steps": steps}
    if thorough:
        for c in cells():
            yield dict(c, id="strace/%s/%s/%s/%s" % (c["tool"], c["switch"], "append" if c["append"] else "noappend", c["pre"]), kind="strace")


def setup(ctx):
    mediamon.install()
    mediamon.bind(ctx)
    asmmon.install()
    fsmon.install()
    ctx.tmp = tempfile.mkdtemp(prefix="c10-", dir=os.environ.get("VERIF_WORK"))


def teardown(ctx):
    shutil.rmtree(ctx.tmp, ignore_errors=True)


def prepare(d, r):
    open(os.path.join(d, "p.asm"), "w").write(ASM)
    src = RT.generate([tf(SRC_FILE["name"], SRC_FILE["data"], SRC_FILE["load"], SRC_FILE["exec"])], r)
    open(os.path.join(d, "src.cas"), "wb").write(src)


def argv_of(step):
    if step["tool"] == "assembler":
        return "assembler.py", ["p.asm", step["switch"], "target.out"] + (["--append"] if step["append"] else [])
    return "file_util.py", ["src.cas", step["switch"], "target.out"] + (["--append"] if step["append"] else [])


def judge_step(ctx, step, before, after, res, form, label):
    requested = SWITCH_KIND[step["switch"]]
    new = NEW_FILE if step["tool"] == "assembler" else SRC_FILE
    kb, old_files = (None, []) if before is None else hostcli.kind_of(before)
    tr = {"tool": step["tool"], "switch": step["switch"], "append": step["append"], "existing": kb or "absent"}
    wit = {"show": "%s %s%s onto %s (%s) -> exit %s: %s" % (step["tool"], step["switch"], " --append" if step["append"] else "", label, kb or "absent",
                                                           res.code, res.out.strip().replace("\n", " | ")[-90:]),
           "events": [e for e in res.events if e[0] != "open-r"][:6], "before_len": None if before is None else len(before),
           "after_len": None if after is None else len(after)}
    wrote_events = [e for e in res.events if e[0] != "open-r" and any(str(x).endswith("target.out") for x in e[1:])]
    ctx.mon("M6.fs-audit-events", len(res.events))
    ctx.mon("R6.decisions")
    changed = after != before
    if res.exc:
        ctx.violation("protect", form, "CLI-TRACEBACK:%s@%s" % (res.exc, res.where), wit, tr)
    # don't-care only WITH --append: whether zero bytes are "an image of the kind being written", and whether a raw binary is
    # a container one can append to, the property does not settle; without --append every existing target is protected
    dont_care = step["append"] and (kb == "empty" or (step["switch"] == "--to_bin" and kb == "raw"))
    allowed = before is None or dont_care or (step["append"] and kb == requested)
    if not allowed:
        if changed or after is None:
            ctx.outcome("wrote-protected")
            ctx.violation("protect", form, "WROTE-PROTECTED-TARGET", wit, tr)
            return
        if wrote_events:
            ctx.outcome("opened-protected-for-writing")
            ctx.violation("protect", form, "PROTECTED-TARGET-OPENED-FOR-WRITING", wit, tr)
            return
        said = res.out.strip()
        if not said or "Saved to target.out" in said:
            ctx.outcome("refused-silently")
            ctx.violation("protect", form, "REFUSED-WITHOUT-EXPLANATION", wit, tr)
            return
        ctx.outcome("refused-and-explained")
        ctx.cell("refused/%s/%s" % (step["switch"], kb))
        return
    if not changed:
        if before is None:
            ctx.outcome("new-path-not-written")
            ctx.violation("protect", form, "NEW-PATH-NOT-WRITTEN", wit, tr)
        else:
            ctx.outcome("allowed-but-unchanged")
        return
    # the save proceeded: the file must be a complete image of the requested kind with old files then the new one
    ka, files = hostcli.kind_of(after)
    if requested == "raw":
        ok = after == new["data"] or (kb == "raw" and step["append"] and after.endswith(new["data"]))
        if not ok:
            ctx.outcome("bad-image")
            ctx.violation("protect", form, "WRITTEN-FILE-NOT-THE-BINARY", wit, tr)
            return
    else:
        if ka != requested:
            ctx.outcome("bad-image")
            ctx.violation("protect", form, "WRITTEN-FILE-NOT-A-%s-IMAGE" % requested.upper(), dict(wit, kind_after=ka), tr)
            return
        want = (old_files if (kb == requested and step["append"]) else []) + [dict(new)]
        d = hostcli.same_list(files, [dict(w, name=w["name"].upper()) for w in want])
        if d:
            ctx.outcome("bad-image")
            ctx.violation("protect", form, "WRITTEN-IMAGE-CONTENT:" + d, dict(wit, listed=[f["name"] for f in files], want=[w["name"] for w in want]), tr)
            return
    ctx.outcome("written-complete-image")
    ctx.cell("written/%s/%s" % (step["switch"], kb or "absent"))


def run_strace(case, ctx, d, r):
    """second, Python-independent witness of file effects"""
    tool, argv = argv_of(case)
    target = os.path.join(d, "target.out")
    before = open(target, "rb").read() if os.path.exists(target) else None
    log = os.path.join(d, "strace.log")
    env = dict(os.environ, PYTHONPATH=REPO, PYTHONDONTWRITEBYTECODE="1")
    p = subprocess.run(["strace", "-f", "-e", "trace=openat,open,creat,unlink,unlinkat,rename,renameat,renameat2,truncate,ftruncate", "-o", log,
                        "/venv/bin/python", os.path.join(REPO, tool)] + argv, cwd=d, env=env, capture_output=True, text=True, timeout=120)
    after = open(target, "rb").read() if os.path.exists(target) else None
    wrote = False
    for line in open(log, errors="replace"):
        if "target.out" in line and ("O_WRONLY" in line or "O_RDWR" in line or "O_CREAT" in line or "O_TRUNC" in line or "unlink" in line
                                      or "rename" in line or "truncate" in line) and "= -1" not in line:
            wrote = True
    os.remove(log)
    ctx.mon("strace.runs")
    # same cell in-process under the audit hook, from the same pre-state
    if before is None:
        if os.path.exists(target):
            os.remove(target)
    else:
        open(target, "wb").write(before)
    res = fsmon.run_cli(tool, argv, d)
    after2 = open(target, "rb").read() if os.path.exists(target) else None
    wrote2 = any(e[0] != "open-r" and any(str(x).endswith("target.out") for x in e[1:]) for e in res.events)
    wit = {"show": "%s %s: strace wrote=%s audit wrote=%s" % (tool, " ".join(argv), wrote, wrote2), "stdout": p.stdout[-200:]}
    if wrote != wrote2 or (after is None) != (after2 is None) or (after is not None and after != after2):
        ctx.outcome("observers-disagree")
        ctx.violation("observers", "strace-vs-audit", "OBSERVERS-DISAGREE", wit, {"tool": case["tool"], "switch": case["switch"]})
    else:
        ctx.outcome("observers-agree")
        ctx.nontriv(case["id"])
    res.code = p.returncode
    return before, after, res


def run_case(case, ctx):
    d = tempfile.mkdtemp(prefix="cell-", dir=ctx.tmp)
    r = rng(ctx.seed, "C10", case["id"])
    try:
        prepare(d, r)
        target = os.path.join(d, "target.out")
        content = pre_content(case["pre"], r)
        if content is not None:
            open(target, "wb").write(content)
        if case["kind"] == "strace":
            run_strace(case, ctx, d, r)
            return
        if case["kind"] == "tilde":
            # the protected file lives at $HOME/target.out; the target argument is the literal string ~/target.out
            home = os.path.join(d, "home")
            os.makedirs(home)
            prot = os.path.join(home, "target.out")
            os.rename(target, prot)
            before = open(prot, "rb").read()
            old_home = os.environ.get("HOME")
            os.environ["HOME"] = home
            try:
                tool, argv = argv_of(case)
                argv = [a if a != "target.out" else "~/target.out" for a in argv]
                res = fsmon.run_cli(tool, argv, d)
            finally:
                if old_home is None:
                    os.environ.pop("HOME", None)
                else:
                    os.environ["HOME"] = old_home
            after = open(prot, "rb").read() if os.path.exists(prot) else None
            ctx.mon("M6.cli-runs")
            allowed = case["append"] and SWITCH_KIND[case["switch"]] == "cassette"
            if after != before and not allowed:
                ctx.outcome("wrote-protected")
                ctx.violation("protect", "tilde-path", "WROTE-PROTECTED-TARGET", {"show": "%s %s: $HOME/target.out changed (%s)" % (tool, " ".join(argv), res.out.strip()[-60:])},
                              {"tool": case["tool"], "switch": case["switch"], "append": case["append"]})
            else:
                ctx.outcome("tilde-ok")
                ctx.nontriv(case["id"])
            return
        steps = [case] if case["kind"] == "cell" else case["steps"]
        label = case["pre"]
        for i, step in enumerate(steps):
            before = open(target, "rb").read() if os.path.exists(target) else None
            tool, argv = argv_of(step)
            mediamon.set_form("c10")
            res = fsmon.run_cli(tool, argv, d)
            after = open(target, "rb").read() if os.path.exists(target) else None
            form = "cell" if case["kind"] == "cell" else "sequence"
            judge_step(ctx, step, before, after, res, form, label if i == 0 else "result of step %d" % i)
            ctx.mon("M6.cli-runs")
        ctx.nontriv(case["id"])
        if case["kind"] == "cell":
            ctx.cell("cell/%s/%s/%s/%s" % (case["tool"], case["switch"], case["append"], case["pre"]))
        if len(ctx.samples) < 3 and case["kind"] == "cell":
            ctx.sample({"cell": case["id"], "exit": res.code, "output": res.out[-160:], "write_events": [e for e in res.events if e[0] != "open-r"][:4]})
    finally:
        shutil.rmtree(d, ignore_errors=True)


def gate(stats):
    out = []
    n = len([k for k in stats["cells"] if k.startswith("cell/")])
    if n < 2 * 3 * 2 * len(PRES):
        out.append("only %d of %d matrix cells executed" % (n, 2 * 3 * 2 * len(PRES)))
    if not any(k.startswith("written/") for k in stats["cells"]) or not any(k.startswith("refused/") for k in stats["cells"]):
        out.append("write and refusal were not both observed")
    return out


def evidence_extra(stats):
    n = len([k for k in stats["cells"] if k.startswith("cell/")])
    return {"matrix_cells_executed": n, "matrix_cells_total": 2 * 3 * 2 * len(PRES), "exhaustive": n == 2 * 3 * 2 * len(PRES)}
