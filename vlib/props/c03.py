"""C03 - branch and PC-relative displacements reach exactly the referenced target."""
from vlib import asmmon, progs
from vlib.ref import mc6809 as R
from vlib.core import rng

PROPERTY = "C03"
SHARDED_GEN = True
RULE = ("cases = layout-controlled programs (G5): a source statement (one of the 19 short / 19 long branch mnemonics, or an "
        "indexed-capable mnemonic with label,PCR / [label,PCR] / label+-n,PCR), a target label, and between them filler whose byte "
        "length is dialled exactly (RMB / NOP / FCB) plus k other not-yet-sized label,PCR statements whose own targets sit near "
        "their 8/16-bit boundary; forward and backward; every distance within 8 of +-127/128 (and +-32767/32768 for long "
        "branches); plus G4 random programs with >=3 branch/PCR operands. Oracle: the instruction bytes found in the image at the "
        "statement's listing address are decoded by R1 and (address of following instruction + d) mod 65536 must equal the "
        "listing address of the label (+-n); a short branch outside -128..127 must be rejected. distinct_nontrivial = distinct "
        "programs in which at least one displacement was decoded and compared, plus must-reject programs observed rejected.")
ASSUMPTIONS = ["reference decoder R1", "label addresses are read from the public listing"]
SHORT = progs.SHORT
LONG = progs.LONG
PCR_MN = ["LDA", "LEAX", "LDY", "STS", "JMP", "CMPU", "STB", "LEAS"]


def setup(ctx):
    asmmon.install()


UNIT = {"idx8": (" LDA 100,X\n", 3), "idx16": (" LDX 1000,Y\n", 4), "idxneg": (" STA -100,U\n", 3), "ext": (" JMP $1234\n", 3),
        "imm16": (" LDY #$1234\n", 4), "extind": (" LDA [$1234]\n", 4), "idx5": (" LDB 5,S\n", 2), "pshs": (" PSHS A,B\n", 2),
        "idx16ind": (" LDD [300,X]\n", 4), "fdb": (" FDB 1,2\n", 4), "fcc": (' FCC "ABC"\n', 3)}


def filler(n, style):
    if n <= 0:
        return []
    if style in UNIT and n < 4000:
        line, sz = UNIT[style]
        k = n // sz
        return [line] * k + [" NOP\n"] * (n - k * sz)
    if style == "rmb" or style in UNIT:
        return [" RMB %d\n" % n]
    if style == "nop":
        return [" NOP\n"] * n
    out = []
    while n > 0:
        k = min(n, 8)
        out.append(" FCB " + ",".join(["1"] * k) + ("\n" if k > 1 else ",\n").replace(",\n", "\n"))
        if k == 1:
            out[-1] = " FCB 1\n"
        n -= k
    return out


def zone(d, limits):
    for lim in limits:
        if abs(d - lim) <= 8:
            return "%+d%+d" % (lim, d - lim)
    return "far"


def branch_cases(thorough):
    for mns, kind, lims in ((SHORT, "short", (127, -128)), (LONG, "long", (127, -128, 32767, -32768))):
        for mn in mns:
            size = 2 if kind == "short" else (3 if mn in ("LBRA", "LBSR") else 4)
            dists = set()
            for lim in lims:
                for x in range(lim - 8, lim + 9):
                    dists.add(x)
            dists |= {0, 1, -2, -3, 5, -20, 60, -60, 126, -127} if kind == "short" else {0, 1, -4, 300, -300, 2000, -2000}
            if thorough and kind == "short":
                dists |= set(range(-140, 141))
            for d in sorted(dists):
                # forward: d = gap ; backward: d = -(gap + size) (target label on the statement gap bytes before S)
                if d >= 0:
                    gap = d
                    body = ["S %s T\n" % mn] + filler(gap, "rmb") + ["T NOP\n"]
                else:
                    gap = -d - size
                    if gap < 0:
                        if -d == size:
                            body = ["T %s T\n" % mn]
                        else:
                            continue
                    else:
                        body = ["T NOP\n" if gap >= 1 else ""] + filler(gap - 1, "rmb") + ["S %s T\n" % mn]
                        body = [b for b in body if b]
                        if gap == 0:
                            body = ["T %s T\n" % mn]
                lines = [" ORG $4000\n"] + body + [" RTS\n"]
                valid = kind == "long" or -128 <= d <= 127
                yield {"id": "%s/%s/%d" % (kind, mn, d), "lines": lines, "form": "%s.%s" % (kind, "fwd" if d >= 0 else "bwd"),
                       "traits": {"zone": zone(d, lims)}, "src": [("S" if "S %s" % mn in "".join(lines) else "T", "T", 0)],
                       "valid": valid, "mn": mn}


def pcr_cases(thorough, seed):
    ds = list(range(100, 141)) if not thorough else list(range(0, 300))
    ds += [32760, 32766, 32767, 32768, 32769, 32775] if not thorough else list(range(32700, 32800, 3))
    mns = PCR_MN[:4] if not thorough else PCR_MN
    for mn in mns:
        for ind in (False, True):
            for fwd in (True, False):
                for gap in ds:
                    for k in ((0, 1, 2, 6) if gap < 1000 else (0,)):
                        if k and not (110 <= gap <= 135) and not thorough:
                            continue
                        if k == 6 and not (100 <= gap <= 130):
                            continue
                        r = rng(seed, "C03", mn, ind, fwd, gap, k)
                        op = "[T,PCR]" if ind else "T,PCR"
                        # k other unsized PCR statements in between, each with its own target dialled near a boundary
                        inner = []
                        extra_src = []
                        room = gap
                        for j in range(k):
                            inner.append("P%d LDA Q%d,PCR\n" % (j, j))
                            extra_src.append(("P%d" % j, "Q%d" % j, 0))
                        if k == 6:
                            room = max(0, gap - 18)       # keep the true distance (filler + 6 inner statements) near the limit
                        pre = room // 2 if k else room
                        style = r.choice(["rmb", "rmb", "nop"] + sorted(UNIT))
                        if fwd:
                            body = ["S %s %s\n" % (mn, op)] + filler(pre, style) + inner + filler(room - pre, "rmb") + ["T NOP\n"]
                        else:
                            body = ["T NOP\n"] + filler(pre, style) + inner + filler(room - pre, "rmb") + ["S %s %s\n" % (mn, op)]
                        # targets for inner statements: placed after everything at dialled distances
                        tail = []
                        for j in range(k):
                            tail += filler(r.choice([100, 115, 120, 121, 122, 123, 124, 125, 126, 127, 128, 130]), "rmb") + ["Q%d NOP\n" % j]
                        lines = [" ORG $2000\n"] + body + tail + [" RTS\n"]
                        yield {"id": "pcr/%s/%s/%s/%d/k%d" % (mn, "ind" if ind else "dir", "fwd" if fwd else "bwd", gap, k), "lines": lines,
                               "form": "pcr.%s.k%d" % ("fwd" if fwd else "bwd", min(k, 1)),
                               "traits": {"ind": ind, "zone": zone(gap if fwd else -gap, (127, -128, 32767, -32768) if gap > 1000 else (124, -126))},
                               "src": [("S", "T", 0)] + extra_src, "valid": True if gap < 32000 else None, "mn": mn}
    # crossing / nested pairs of unsized PCR statements whose decisions depend on each other
    for n in (range(100, 141) if not thorough else range(90, 160)):
        for m1, m2 in (("LEAX", "LEAY"), ("LDY", "LDA"), ("LDA", "STS")):
            for ind1, ind2 in ((False, False), (True, False), (False, True)):
                o1 = "[T2,PCR]" if ind1 else "T2,PCR"
                o2 = "[T1,PCR]" if ind2 else "T1,PCR"
                lines = [" ORG $2000\n", "T1 NOP\n", "P1 %s %s\n" % (m1, o1)] + filler(n, "rmb") + ["P2 %s %s\n" % (m2, o2), "T2 NOP\n", " RTS\n"]
                yield {"id": "pcrcross/%s/%s/%d/%d%d" % (m1, m2, n, ind1, ind2), "lines": lines, "form": "pcr.crossing", "traits": {"ind": ind1 or ind2, "zone": "n/a"},
                       "src": [("P1", "T2", 0), ("P2", "T1", 0)], "valid": True, "mn": m1}
                lines = [" ORG $2000\n", "P1 %s %s\n" % (m1, o1), "P2 %s %s\n" % (m2, o2.replace("T1", "T3"))] + filler(n, "rmb") + ["T3 NOP\n", "T2 NOP\n", " RTS\n"]
                yield {"id": "pcrnest/%s/%s/%d/%d%d" % (m1, m2, n, ind1, ind2), "lines": lines, "form": "pcr.nested", "traits": {"ind": ind1 or ind2, "zone": "n/a"},
                       "src": [("P1", "T2", 0), ("P2", "T3", 0)], "valid": True, "mn": m1}
    # a PCR statement / branch directly followed by a later ORG (the next statement's address is not the end of the instruction)
    for mn, op in (("LEAX", "T,PCR"), ("JMP", "T,PCR"), ("LDA", "[T,PCR]"), ("BRA", "T"), ("LBRA", "T")):
        for org2 in (0x2010, 0x2100, 0x3000):
            lines = [" ORG $2000\n", "T NOP\n", " NOP\n", "S %s %s\n" % (mn, op), " ORG $%X\n" % org2, "U NOP\n"]
            yield {"id": "beforeorg/%s/%X" % (mn, org2), "lines": lines, "form": "rel.before-later-org", "traits": {"ind": "[" in op, "zone": "n/a"},
                   "src": [("S", "T", 0)], "valid": None, "mn": mn}
    # a label in front of a LEADING ORG (on an ORG, SETDP, NAM or RMB 0 line): the target is not "the bytes in between" away
    for carrier in ("ORG $%X", "SETDP 0", "RMB 0", "NAM X"):
        for first, second in ((0x0100, 0x1000), (0x0FF0, 0x1000), (0x1000, 0x0F90), (0x3000, 0x1000), (0x1000, 0x1000)):
            head = "T %s\n" % (carrier % first if "%" in carrier else carrier)
            taddr = first if "%" in carrier else 0
            for mn in ("BRA", "BSR", "BNE", "LBRA", "LBSR", "LBEQ"):
                lines = [head, " ORG $%X\n" % second, " NOP\n", "S %s T\n" % mn, " NOP\n"]
                size = 2 if not mn.startswith("L") else (3 if mn in ("LBRA", "LBSR") else 4)
                dist = taddr - (second + 1 + size)
                valid = True if mn.startswith("L") else (-128 <= dist <= 127)
                yield {"id": "leadorg/%s/%s/%X/%X" % (mn, carrier.split()[0], first, second), "lines": lines, "form": "rel.label-before-leading-org",
                       "traits": {"zone": "n/a", "short": not mn.startswith("L")}, "src": [("S", "T", 0)],
                       # two ORGs in one program may be refused altogether (C02); accepted, the branch has to reach the label, and a
                       # short branch that cannot must never be accepted
                       "valid": None if valid else False, "mn": mn}
    # ... and label,PCR operands to such a label: 8-bit only if the real displacement fits, else 16-bit or a diagnostic
    for first, second in ((0x20C0, 0x2000), (0x2085, 0x2000), (0x2084, 0x2000), (0x1F90, 0x2000), (0x1F80, 0x2000), (0x0100, 0x2000), (0x2100, 0x2000), (0x2000, 0x2000)):
        for mn, op in (("LEAX", "T,PCR"), ("LDA", "[T,PCR]"), ("LDY", "T+1,PCR"), ("JMP", "T,PCR")):
            lines = ["T ORG $%X\n" % first, " ORG $%X\n" % second, "S %s %s\n" % (mn, op), " NOP\n"]
            yield {"id": "leadorgpcr/%s/%X/%X" % (mn, first, second), "lines": lines, "form": "pcr.label-before-leading-org", "traits": {"ind": "[" in op, "zone": "n/a"},
                   "src": [("S", "T", 1 if "+1" in op else 0)], "valid": None, "mn": mn}
    # branches whose span contains 8-bit and 16-bit label,PCR statements
    for bm in ("BRA", "BNE", "LBRA", "BSR"):
        for npcr in (1, 2, 3):
            for far in (False, True):
                inner = []
                for j in range(npcr):
                    inner += [" LDA D%d,PCR\n" % j, " CLRA\n"]
                tail = []
                for j in range(npcr):
                    tail += filler(200 if far else 3, "rmb") + ["D%d FCB 1\n" % j]
                for fwd in (True, False):
                    if fwd:
                        lines = [" ORG $2000\n", "S %s T\n" % bm, " NOP\n"] + inner + ["T NOP\n"] + tail
                    else:
                        lines = [" ORG $2000\n", "T NOP\n"] + inner + ["S %s T\n" % bm, " NOP\n"] + tail
                    yield {"id": "overpcr/%s/%d/%s/%s" % (bm, npcr, far, fwd), "lines": lines, "form": "branch-over-pcr", "traits": {"zone": "n/a"},
                           "src": [("S", "T", 0)] , "valid": True, "mn": bm}
    # label +- EQU constant of either sign: the width decision must use the signed constant
    for mn in ("LEAX", "LDA"):
        for cv in (-100, -2, 3, 100, -200):
            for opn in ("+", "-"):
                for gap in (0, 20, 47, 60, 100, 126):
                    for fwd in (True, False):
                        e = "T%sCV" % opn
                        n = cv if opn == "+" else -cv
                        if fwd:
                            body = ["S %s %s,PCR\n" % (mn, e)] + filler(gap, "rmb") + ["T NOP\n"]
                        else:
                            body = ["T NOP\n"] + filler(gap, "rmb") + ["S %s %s,PCR\n" % (mn, e)]
                        yield {"id": "pcrequ/%s/%d/%s/%d/%s" % (mn, cv, opn, gap, fwd), "lines": ["CV EQU %d\n" % cv, " ORG $2000\n", " RMB 300\n"] + body + [" RMB 300\n", " RTS\n"],
                               "form": "pcr.equ-expr.%s" % ("fwd" if fwd else "bwd"), "traits": {"ind": False, "zone": "n/a", "negative_constant": cv < 0},
                               "src": [("S", "T", n)], "valid": True, "mn": mn}
    # label +- n
    for mn in ("LDA", "LEAX"):
        for n in (1, 2, 5, -1, -3, 100, 130, 200, 300, -100, -130, -200, -300):
            for gap in (0, 10, 118, 122, 126, 130, 300):
                for fwd in (True, False):
                    e = "T%+d" % n
                    if fwd:
                        body = ["S %s %s,PCR\n" % (mn, e)] + filler(gap, "rmb") + ["T NOP\n"]
                    else:
                        body = ["T NOP\n"] + filler(gap, "rmb") + ["S %s %s,PCR\n" % (mn, e)]
                    yield {"id": "pcrexpr/%s/%d/%d/%s" % (mn, n, gap, fwd), "lines": [" ORG $2000\n"] + body + [" NOP\n", " NOP\n", " RTS\n"],
                           "form": "pcr.expr.%s" % ("fwd" if fwd else "bwd"), "traits": {"ind": False, "zone": "n/a"},
                           "src": [("S", "T", n)], "valid": True, "mn": mn}


def numeric_pcr_cases(thorough):
    from vlib.forms import POS, NEG, spellings
    vals = list(POS) + list(NEG) + ([v + d for v in (127, 128, 255, 256, -128, -129) for d in (-2, -1, 1, 2)] if thorough else [])
    for mn in ("LDA", "LEAX", "LDY", "STB"):
        for ind in (False, True):
            for v in vals:
                for sc, sp in spellings(v, thorough):
                    op = "[%s,PCR]" % sp if ind else "%s,PCR" % sp
                    yield {"id": "pcrnum/%s/%s" % (mn, op), "lines": [" ORG $2000\n", "S %s %s\n" % (mn, op), " NOP\n"], "form": "pcr.numeric", "traits": {"ind": ind, "zone": "n/a"},
                           "src": [("S", None, v)], "valid": True, "mn": mn}


def gen_cases(tier, seed, shard, nshards):
    thorough = tier == "thorough"
    i = 0
    for c in numeric_pcr_cases(thorough):
        i += 1
        if i % nshards == shard:
            yield c
    for c in branch_cases(thorough):
        i += 1
        if i % nshards == shard:
            yield c
    for c in pcr_cases(thorough, seed):
        i += 1
        if i % nshards == shard:
            yield c
    n = 4000 if thorough else 300
    for k in range(n):
        i += 1
        if i % nshards != shard:
            continue
        r = rng(seed, "C03", "prog", k)
        p = progs.gen_program(r, r.choice([10, 25, 60, 100]), features={"inh", "imm", "rel", "lrel", "pcr", "data", "idxconst", "mem"},
                              origin=r.choice([0x1000, 0x7F00, 0x20, 0xF000]))
        lines = progs.render(p)
        skip = len(lines) - len(p["stmts"])
        src = []
        for j, s in enumerate(p["stmts"]):
            if s["kind"] in ("rel", "lrel", "pcr"):
                src.append((skip + j, s["refs"][0], 0))
        if len(src) < 3:
            continue
        yield {"id": "prog/%d" % k, "lines": lines, "form": "program", "traits": {}, "src": src, "valid": None, "mn": None}


def run_case(case, ctx):
    o = asmmon.assemble(case["lines"], keep_program=False)
    ctx.mon("M5.outcome")
    form, traits = case["form"], case["traits"]
    wit = {"source": "".join(case["lines"][:60]), "show": case["id"] + " -> " + o.brief()[:60]}
    if o.outcome == "livelock":
        ctx.outcome("livelock")      # C13's subject, not a C03 verdict
        return
    if o.outcome == "internal":
        ctx.outcome("internal")
        return
    if o.outcome == "diag":
        if case["valid"] is False:
            ctx.outcome("rejected-out-of-range")
            ctx.nontriv(case["id"])
            ctx.cell("rejected/" + form)
        elif case["valid"] is True:
            ctx.outcome("rejected-valid")
            ctx.violation("reach", form, "REJECTED-VALID", wit, traits)
        else:
            ctx.outcome("rejected")
        return
    if case["valid"] is False:
        ctx.outcome("accepted-out-of-range")
        ctx.violation("reach", form, "ACCEPTED-OUT-OF-RANGE", wit, traits)
        return
    ctx.mon("M1.asm-post")
    by_label = {s["label"]: s for s in o.stmts if s["label"]}
    compared = 0
    for src, tgt, const in case["src"]:
        st = by_label.get(src) if isinstance(src, str) else o.stmts[src]
        tg = by_label.get(tgt) if tgt is not None else None
        if st is None or (tg is None and tgt is not None):
            continue
        b = bytes(st["bytes"])
        try:
            d = R.decode_exact(b)
        except R.Bad as e:
            ctx.violation("reach", form, "MALFORMED", dict(wit, bytes=b.hex(), stmt=st["mn"]), traits)
            continue
        ctx.mon("R1.decode")
        if d["mode"] == "rel":
            off, width = d["off"], d["width"]
        elif d["mode"] == "idx" and d.get("kind") == "pcr":
            off, width = d["off"], d["width"]
        else:
            ctx.violation("reach", form, "NOT-RELATIVE", dict(wit, bytes=b.hex(), decoded=repr(d)), traits)
            continue
        if tgt is None:
            # bare numeric n,PCR: the displacement itself is n
            want = const % 65536
            got = off % 65536
            if d["mode"] != "idx":
                got = None
        else:
            want = (tg["addr"] + const) % 65536
            got = (st["addr"] + len(b) + off) % 65536
        compared += 1
        if got != want:
            ctx.outcome("wrong-displacement")
            t2 = dict(traits, width=width)
            ctx.violation("reach", form if form != "program" else "program." + d["mode"], "WRONG-TARGET",
                          dict(wit, bytes=b.hex(), decoded=repr(d), stmt_addr=st["addr"], target=want, reached=got), t2)
        else:
            ctx.cell("%s/w%d" % (form, width))
    if compared:
        ctx.outcome("ok")
        ctx.nontriv(case["id"])
        if len(ctx.samples) < 3 and len(case["lines"]) < 9:
            ctx.sample({"source": case["lines"], "listing": [l.rstrip() for l in o.listing]})


def gate(stats):
    out = []
    c = stats["cells"]
    if stats["monitors"].get("R1.decode", 0) == 0:
        out.append("no displacement decoded")
    for need in ("short.fwd/w8", "short.bwd/w8", "long.fwd/w16", "long.bwd/w16"):
        if need not in c:
            out.append("no accepted case for " + need)
    if not any(k.startswith("pcr.") and k.endswith("/w8") for k in c) or not any(k.startswith("pcr.") and k.endswith("/w16") for k in c):
        out.append("8-bit and 16-bit PCR post-bytes were not both observed")
    if not any(k.startswith("rejected/short") for k in c):
        out.append("no out-of-range short branch observed rejected")
    return out
