"""C04 - symbols and two-term expressions evaluate to their arithmetic value everywhere."""
import re
from vlib import asmmon, forms
from vlib.ref import mc6809 as R
from vlib.core import rng

PROPERTY = "C04"
SHARDED_GEN = False
RULE = ("cases = one statement whose operand is a symbol or a two-term expression (term op term, op in + - * /) in each operand position "
        "{imm8, imm16, plain / forced-direct / forced-extended memory, [extended indirect], constant index offset (direct and indirect), "
        "numeric PCR offset, EQU, FCB, FDB, RMB, ORG (constant terms only; judged on the reported origin and the first label's address)} with terms from {literal decimal / $hex, EQU symbol defined before or after use and "
        "spelled decimal / $h / $hh / $hhhh / %bin / 'c, label before use, label after use}, operand values chosen to hit results 0, "
        "255/256, 32767/32768, 65535/65536, negative and division by zero. Oracle R2: the generator's own AST is evaluated with Python "
        "integers (EQU symbol -> its constant, label -> its listing address, truncating /) and compared with the value decoded by R1 "
        "from the emitted bytes (or the raw bytes for FCB/FDB/RMB, the symbol table for EQU). A result outside 0..65535 may be rejected "
        "or reduced mod 65536; division by zero must be a diagnostic; results that do not fit an 8-bit position are not judged here "
        "(C12). Metamorphic: definition order and spelling of a constant must not change the decoded value (same expected value for "
        "all variants). distinct_nontrivial = distinct accepted statements whose decoded value was compared.")
ASSUMPTIONS = ["expression terms are spelled in decimal or $hex (the documented expression grammar); EQU definitions use every spelling",
               "label addresses are read from the listing", "reference decoder R1"]
POSITIONS = ["imm8", "imm16", "mem.plain", "mem.dir", "mem.ext", "extind", "idx.const", "idx.const.ind", "pcr.num", "equ", "fcb", "fdb", "rmb", "org"]
WIDTH = {"imm8": 8, "mem.dir": 8, "fcb": 8}
ORGS = [0x10, 0x1000, 0x7FF0, 0xFFD0]


def setup(ctx):
    asmmon.install()


def term_pairs(r, thorough):
    """yields (left, right) term descriptors: ('lit', value, spelling) | ('equ', value, spelling, order) | ('label', which)"""
    lits = [0, 1, 2, 5, 127, 128, 255, 256, 1000, 32767, 32768, 65535]
    out = []
    for _ in range(160 if thorough else 10):
        a, b = r.choice(lits), r.choice(lits)
        out.append((("lit", a), ("lit", b)))
        out.append((("equ", a, r.choice(["before", "after"])), ("lit", b)))
        out.append((("lit", a), ("equ", b, r.choice(["before", "after"]))))
        out.append((("equ", a, r.choice(["before", "after"])), ("equ", b, r.choice(["before", "after"]))))
    for _ in range(96 if thorough else 8):       # negative EQU constants: sign handling and truncating division
        a, b = -r.choice([1, 2, 3, 7, 100, 129, 255, 1000]), r.choice([1, 2, 3, 4, 7, 256])
        out.append((("equ", a, r.choice(["before", "after"])), ("lit", b)))
        out.append((("lit", b), ("equ", a, r.choice(["before", "after"]))))
        out.append((("equ", a, "before"), ("equ", -r.choice([1, 2, 5]), "after")))
    for lab in ("LB", "LA"):
        for n in (0, 1, 2, 5, 255, 256, 1000):
            out.append((("label", lab), ("lit", n)))
            out.append((("lit", n), ("label", lab)))
            out.append((("label", lab), ("equ", n, r.choice(["before", "after"]))))
        for n in (-1, -2, -127, -128, -129, -300):      # a label with a negative EQU constant (wave 10, C01-N / C04-P)
            out.append((("label", lab), ("equ", n, r.choice(["before", "after"]))))
            out.append((("equ", n, r.choice(["before", "after"])), ("label", lab)))
    out.append((("label", "LB"), ("label", "LA")))
    out.append((("label", "LA"), ("label", "LB")))
    return out


def tdiv(a, b):
    q = abs(a) // abs(b)
    return q if (a < 0) == (b < 0) else -q


def spell_equ(v, r):
    if v < 0:
        return "%d" % v
    opts = ["%d" % v, "$%X" % v, "$%04X" % v]
    if v < 256:
        opts += ["$%02X" % v, "%" + format(v, "08b")]
        if 48 <= v < 123 and chr(v).isalnum():
            opts.append("'" + chr(v))
    opts.append("%" + format(v, "016b"))
    return r.choice(opts)


def spell_lit(v, r):
    return r.choice(["%d" % v, "$%X" % v, "$%04X" % v] + (["$%02X" % v] if v < 256 else []))


def build(pos, left, op, right, org, r, single=None):
    """-> (lines, target index, term texts, equ dict)"""
    pre, post = [], []
    equs = {}
    texts = []
    for i, t in enumerate((left, right) if single is None else (single,)):
        if t[0] == "lit":
            texts.append(spell_lit(t[1], r))
        elif t[0] == "equ":
            # mostly E0/E1, sometimes names built from register letters (a symbol is not a register just because it spells like one)
            nm = r.choice(["E%d" % i] * 2 + [r.choice(["AB", "BD", "ABD", "BA", "XY", "PCX", "DD", "SU", "AD", "X", "Y", "U", "S", "X", "S"]) + ("" if i == 0 else "2")])
            if nm in equs:
                nm = "E%d" % i
            equs[nm] = t[1]
            line = "%s EQU %s\n" % (nm, spell_equ(t[1], r))
            (pre if t[2] == "before" else post).append(line)
            texts.append(nm)
        else:
            texts.append(t[1])
    expr = texts[0] + op + texts[1] if single is None else texts[0]
    mn, opnd = {"imm8": ("LDA", "#" + expr), "imm16": ("LDX", "#" + expr), "mem.plain": ("LDA", expr), "mem.dir": ("LDA", "<" + expr),
                "mem.ext": ("LDA", ">" + expr), "extind": ("LDA", "[" + expr + "]"), "idx.const": ("LDA", expr + ",Y"),
                "idx.const.ind": ("LDX", "[" + expr + ",U]"), "pcr.num": ("LEAX", expr + ",PCR"), "equ": ("EQU", expr), "fcb": ("FCB", expr),
                "fdb": ("FDB", expr), "rmb": ("RMB", expr), "org": ("ORG", expr)}[pos]
    label = "RES" if pos == "equ" else ""
    if pos == "org":
        return pre + [" ORG %s\n" % expr, "LB NOP\n", "ZZ9 NOP\n", "LA NOP\n"] + post, len(pre), expr, equs, mn
    lines = pre + [" ORG $%X\n" % org, "LB NOP\n", "%s %s %s\n" % (label, mn, opnd), "ZZ9 NOP\n", "LA NOP\n"] + post
    return lines, len(pre) + 2, expr, equs, mn


def gen_cases(tier, seed):
    thorough = tier == "thorough"
    k = 0
    for c in chain_cases():
        yield c
    for pos in POSITIONS:
        r = rng(seed, "C04", pos)
        pairs = term_pairs(r, thorough)
        if pos == "org":
            # an origin that leaves exactly enough room for the three NOPs, with the constant defined after the last byte of memory
            pairs = pairs + [(("lit", 0xFFFF), ("equ", 2, "after")), (("equ", 0xFFFF, "after"), ("lit", 2)), (("equ", 0xFFFE, "after"), ("equ", 1, "after"))]
        for left, right in pairs:
            for op in "+-*/":
                if "label" in (left[0], right[0]) and pos in ("rmb", "pcr.num", "org"):
                    continue          # label-derived sizes/offsets: label,X is outside the grammar the tool accepts; label,PCR is C03's
                org = r.choice(ORGS) if pos != "rmb" else 0x1000
                lines, target, expr, equs, mn = build(pos, left, op, right, org, r)
                k += 1
                yield {"id": "%s/%s/%d" % (pos, expr, k), "pos": pos, "lines": lines, "target": target, "left": left, "right": right, "op": op, "equs": equs,
                       "mn": mn, "expr": expr}
        # single symbols (no operator) in every position, every EQU spelling
        for v in ([0, 5, 200, 255] + ([256, 0x1234, 65535] if pos not in WIDTH else []) + [-1, -2, -128, -129, -255, -256, -300, -32768]):
            for order in ("before", "after"):
                for _ in range(8 if thorough else 1):
                    lines, target, expr, equs, mn = build(pos, None, "", None, r.choice(ORGS) if pos != "rmb" else 0x1000, r, single=("equ", v, order))
                    k += 1
                    yield {"id": "%s/sym/%s/%d" % (pos, order, k), "pos": pos, "lines": lines, "target": target, "left": ("equ", v, order), "right": None, "op": "",
                           "equs": equs, "mn": mn, "expr": expr}
        if pos == "org":
            # an origin that depends on a label cannot be known before layout: never silently ignored
            for lab in ("LB", "LA"):
                for expr in (lab, lab + "+1", "1+" + lab):
                    k += 1
                    yield {"id": "org/label/%s" % expr, "pos": "org-label", "lines": [" ORG %s\n" % expr, "LB NOP\n", "LA NOP\n"], "target": 0,
                           "left": ("label", lab), "right": None, "op": "", "equs": {}, "mn": "ORG", "expr": expr}
        if pos in ("imm16", "mem.plain", "mem.ext", "extind", "fdb", "equ"):
            for lab in ("LB", "LA"):
                for org in ORGS:
                    lines, target, expr, equs, mn = build(pos, None, "", None, org, r, single=("label", lab))
                    k += 1
                    yield {"id": "%s/label/%s/%X" % (pos, lab, org), "pos": pos, "lines": lines, "target": target, "left": ("label", lab), "right": None, "op": "",
                           "equs": equs, "mn": mn, "expr": expr}


def chain_cases():
    """an EQU defined by an expression whose exact value leaves -32768..65535, then used in a further expression: if the definition is
    accepted the symbol has ONE value (the one the symbol table shows, reduced modulo 65536) wherever it is used"""
    k = 0
    for c1, c2 in ((-32768, 2), (-200, 1000), (-40000 // 2, 4), (300, 300), (-1, 65535), (-32768, 3), (40000, -2), (-129, 256), (-2, 16385)):
        for d_ in (2, 3, 16, -2):
            for use in ("FDB Q/%d", "LDX #Q/%d", "FDB 1,Q/%d"):
                k += 1
                yield {"id": "equchain/%d*%d/%s" % (c1, c2, use % d_), "pos": "equ-chain", "chain": (c1, c2, d_),
                       "lines": ["A EQU %d\n" % c1, "Q EQU A*%d\n" % c2, " ORG $1000\n", " %s\n" % (use % d_), "ZZ9 NOP\n"], "target": 3,
                       "left": None, "right": None, "op": "/", "equs": {}, "mn": use.split()[0], "expr": "Q/%d" % d_}


def term_value(t, labels):
    if t[0] in ("lit", "equ"):
        return t[1]
    return labels[t[1]]


def term_kind(t):
    return "none" if t is None else t[0] + ("-" + t[2] if t[0] == "equ" else ("-" + ("before" if t[1] == "LB" else "after") if t[0] == "label" else ""))


def run_chain(case, ctx, o):
    c1, c2, d_ = case["chain"]
    stmt = case["lines"][case["target"]].strip()
    wit = {"source": "".join(case["lines"]), "show": "A EQU %d / Q EQU A*%d / %s -> %s" % (c1, c2, stmt, o.brief()[:50])}
    if o.outcome == "diag":
        ctx.outcome("chain-rejected")
        ctx.cell("equ-chain/rejected")
        return
    if o.outcome != "ok":
        ctx.outcome("not-ok:" + o.outcome)
        ctx.violation("expr", "equ-chain", "NOT-ACCEPTED:%s:%s@%s" % (o.outcome, o.exc, o.where), wit)
        return
    q16 = asmmon.parse_symbols(o.symbols).get("Q")
    exact = c1 * c2
    b_ = bytes(o.stmts[case["target"]]["bytes"])
    got = int.from_bytes(b_[-2:], "big")
    ok_vals = {tdiv(q16, d_) % 65536, tdiv(q16 - 65536, d_) % 65536} if q16 is not None else set()
    if -32768 <= exact <= 65535:
        ok_vals = {tdiv(exact, d_) % 65536}
    if q16 is None or q16 != exact % 65536 or got not in ok_vals:
        ctx.outcome("wrong-value")
        ctx.violation("expr", "equ-chain", "SYMBOL-HAS-TWO-VALUES" if q16 == exact % 65536 else "WRONG-VALUE",
                      dict(wit, symbol_table_Q=q16, exact_Q=exact, emitted=got, allowed=sorted(ok_vals)),
                      {"range": "in-range" if -32768 <= exact <= 65535 else "out-of-range"})
        return
    ctx.outcome("ok")
    ctx.nontriv(stmt + str(case["chain"]))
    ctx.cell("equ-chain/accepted-consistent")


def run_case(case, ctx):
    o = asmmon.assemble(case["lines"], keep_program=False)
    ctx.mon("M5.outcome")
    if case.get("chain"):
        return run_chain(case, ctx, o)
    pos, op = case["pos"], case["op"]
    left, right = case["left"], case["right"]
    left = tuple(left) if left else None
    right = tuple(right) if right else None
    tr = {"op": op or "none", "left": term_kind(left), "right": term_kind(right)}
    stmt = case["lines"][case["target"]].strip()
    wit = {"source": "".join(case["lines"]), "show": stmt + " -> " + o.brief()[:60]}
    has_label = "label" in (left[0] if left else None, right[0] if right else None)
    if o.outcome not in ("ok", "diag"):
        ctx.outcome("not-ok:" + o.outcome)
        ctx.violation("expr", pos, "NOT-ACCEPTED:%s:%s@%s" % (o.outcome, o.exc, o.where), wit, tr)
        return
    if not op and left and left[0] == "equ" and o.outcome == "diag" and pos not in ("equ",):
        # "each EQU symbol replaced by its defined constant": a statement that is accepted with the constant written in place
        # (in decimal) cannot be rejected when the same constant is reached through a symbol
        name = case["expr"]
        lit_lines = [re.sub(r"(?<![A-Z0-9@])%s(?![A-Z0-9@])" % re.escape(name), str(left[1]), l) if i == case["target"] else l
                     for i, l in enumerate(case["lines"])]
        o_lit = asmmon.assemble(lit_lines, keep_program=False)
        if o_lit.outcome == "ok":
            ctx.outcome("symbol-rejected-literal-accepted")
            ctx.violation("expr", pos, "REJECTED-THROUGH-SYMBOL-ACCEPTED-AS-LITERAL", dict(wit, literal_statement=lit_lines[case["target"]].strip(),
                          literal_bytes=bytes(o_lit.stmts[case["target"]]["bytes"]).hex()), dict(tr, result="negative" if left[1] < 0 else "non-negative"))
            return
    if pos == "org-label":
        # accepted only if the label really ends up at the address the ORG names (it cannot: the label follows the ORG)
        if o.outcome == "diag":
            ctx.outcome("org-label-rejected")
            ctx.cell("org-label-rejected")
            ctx.nontriv(stmt)
        else:
            ctx.outcome("org-label-accepted")
            ctx.violation("expr", "org", "LABEL-ORIGIN-ACCEPTED", dict(wit, origin=o.origin), tr)
        return
    # labels' addresses: from the listing when accepted; a rejected program is judged only where the expected class is decidable without them
    labels = {}
    if o.outcome == "ok":
        labels = {s["label"]: s["addr"] for s in o.stmts if s["label"] in ("LB", "LA")}
    elif has_label:
        # a rejected program shows no addresses, but the layout is known: LB = origin, the statement at origin+1 with 1..5 bytes,
        # ZZ9 after it, LA after ZZ9.  If the exact result fits the position for EVERY possible statement size the rejection
        # is a rejection of a valid statement; an EQU over a label stays a don't-care (the tool defines EQU over constants)
        org = next((int(l.split("$")[1], 16) for l in case["lines"] if l.startswith(" ORG $")), 0)
        cands = []
        for size in range(1, 6):
            labels = {"LB": org, "LA": org + 1 + size + 1}
            a_ = term_value(left, labels)
            b_ = term_value(right, labels) if right else None
            if op == "/" and b_ == 0:
                cands.append(None)
            else:
                cands.append(a_ if not op else {"+": a_ + b_, "-": a_ - b_, "*": a_ * b_, "/": tdiv(a_, b_) if b_ else 0}[op])
        lim = 255 if WIDTH.get(pos, 16) == 8 else 65535
        if pos not in ("equ",) and all(c is not None and 0 <= c <= lim for c in cands) and org + 8 < 0x10000:
            ctx.outcome("rejected-valid")
            ctx.violation("expr", pos, "REJECTED-VALID", dict(wit, possible_values=sorted(set(cands))), dict(tr, result="in-range", symbolic=True))
            return
        ctx.outcome("rejected-with-label")
        ctx.notes["rejected-with-label/" + pos] += 1
        return
    a = term_value(left, labels)
    b = term_value(right, labels) if right else None
    if op == "/" and b == 0:
        if o.outcome == "ok":
            ctx.outcome("div0-accepted")
            ctx.violation("expr", pos, "DIVISION-BY-ZERO-ACCEPTED", wit, tr)
        else:
            ctx.outcome("div0-rejected")
            ctx.nontriv(stmt)
            ctx.cell("div0-rejected/" + pos)
        return
    val = a if not op else {"+": a + b, "-": a - b, "*": a * b, "/": tdiv(a, b) if b else 0}[op]
    width = WIDTH.get(pos, 16)
    in16 = 0 <= val <= 65535
    if width == 8 and not (0 <= val <= 255):
        # an 8-bit position cannot hold the 16-bit result: it must be rejected, or (immediate / FCB, -128..-1) be the
        # two's complement byte - never anything else
        if o.outcome == "diag":
            ctx.outcome("rejected-not-representable-in-8-bits")
            ctx.cell("8bit-rejected/" + pos)
            return
        st8 = bytes(o.stmts[case["target"]]["bytes"])
        v16 = val % 65536                      # reduction modulo 65536 is allowed first
        ok8 = len(st8) >= 1 and ((pos in ("imm8", "fcb") and -128 <= val < 0 and st8[-1] == val % 256) or (v16 <= 255 and st8[-1] == v16)
                                 or (pos in ("imm8", "fcb") and v16 >= 0xFF80 and st8[-1] == v16 % 256))
        if ok8:
            ctx.outcome("ok")
            ctx.cell("8bit-twos-complement/" + pos)
            ctx.nontriv(stmt)
        else:
            ctx.outcome("wrong-value")
            ctx.violation("expr", pos, "WRONG-VALUE", dict(wit, bytes=st8.hex(), exact=val), dict(tr, result="not-representable-in-8-bits"))
        return
    if pos == "rmb" and (val < 0 or val > 4000):
        ctx.outcome("skipped-rmb-size")
        return
    if pos == "org" and o.outcome == "diag" and val % 65536 > 0xFFFD:
        ctx.outcome("skipped-origin-leaves-no-room")       # three NOPs follow the ORG
        return
    if o.outcome == "diag":
        if in16:
            ctx.outcome("rejected-valid")
            uses_symbol = "equ" in tr["left"] or "equ" in tr["right"] or "label" in tr["left"] or "label" in tr["right"]
            ctx.violation("expr", pos, "REJECTED-VALID", wit, dict(tr, result="in-range", symbolic=uses_symbol))
        else:
            ctx.outcome("rejected-out-of-range")
            ctx.cell("out-of-range-rejected/" + pos)
        return
    ctx.mon("M1.asm-post")
    st = o.stmts[case["target"]]
    b_ = bytes(st["bytes"])
    want = val % 65536
    got = None
    if pos == "equ":
        got = asmmon.parse_symbols(o.symbols).get("RES")
    elif pos == "org":
        first = next((s_["addr"] for s_ in o.stmts if s_["label"] == "LB"), None)
        got = o.origin if o.origin == first else None
        b_ = bytes([0x12] * 3) if bytes(o.image or b"") == b"\x12\x12\x12" else b""
    elif pos == "fcb":
        got = b_[0] if len(b_) == 1 else None
    elif pos == "fdb":
        got = int.from_bytes(b_, "big") if len(b_) == 2 else None
    elif pos == "rmb":
        got = len(b_) if not any(b_) else None
    else:
        try:
            d = R.decode_exact(b_)
            ctx.mon("R1.decode")
        except R.Bad as e:
            ctx.outcome("malformed")
            ctx.violation("expr", pos, "MALFORMED", dict(wit, bytes=b_.hex()), tr)
            return
        if d["mode"] == "imm":
            got = d["val"]
            if d["bits"] == 8:
                want = val % 256
        elif d["mode"] in ("dir", "ext"):
            got = d["val"]
            if pos == "mem.dir" and d["mode"] != "dir" or pos == "mem.ext" and d["mode"] != "ext":
                got = None
        elif d["mode"] == "idx":
            if d["kind"] == "extind":
                got = d["addr"]
            elif d["kind"] in ("off", "pcr"):
                got = d["off"] % 65536
                if ("pcr" in pos) != (d["kind"] == "pcr") or d["ind"] != pos.endswith(".ind"):
                    got = None
    if got != want:
        ctx.outcome("wrong-value")
        ctx.violation("expr", pos, "WRONG-VALUE", dict(wit, bytes=b_.hex(), got=got, want=want, exact=val), dict(tr, result="in-range" if in16 else ("negative" if val < 0 else "overflow")))
        return
    ctx.outcome("ok")
    ctx.nontriv(stmt + "|" + "".join(l for l in case["lines"] if " EQU " in l))
    ctx.cell("%s/%s/%s/%s" % (pos, tr["op"], tr["left"].split("-")[0], tr["right"].split("-")[0]))
    if pos not in ctx.extra.setdefault("_seen", {}):
        ctx.extra["_seen"][pos] = 1
        ctx.sample({"source": [l.rstrip() for l in case["lines"]], "bytes": b_.hex(), "expected_value": want}, limit=13)


def gate(stats):
    out = []
    c = stats["cells"]
    for pos in POSITIONS:
        if not any(k.startswith(pos + "/") for k in c):
            out.append("no accepted, decoded case for position " + pos)
    return out
