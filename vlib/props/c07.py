"""C07 - disk images round-trip every file exactly, wherever its granules lie."""
from vlib.media_disk import setup, gen_cases, run_case, gate_c07 as gate
PROPERTY = "C07"
RULE = ("cases = (a) lists of 1-8 generated files (names 1-12 letters/digits either case, extensions 0-3, ML / BASIC / ASCII / data kinds, "
        "lengths within 12 of granule multiples and 10 of sector multiples plus random, arbitrary content) stored by the real "
        "DiskFile.add_file on a blank image under the default and under random permutations of the granule fill order, then read "
        "back by the real DiskFile(buffer).list_files(); (b) foreign images built by the reference writer R5 (chains in random / "
        "reverse / interleaved / directory-track-crossing order, arbitrary slots), fsck-clean, read by the tool. Oracle = shadow "
        "list compared field by field; M8 additionally compares the new directory entry with the argument after every add_file. "
        "distinct_nontrivial = distinct cases whose listing was compared and matched.")
ASSUMPTIONS = ["R5 (vlib/ref/dskfs.py) transcribes the Disk BASIC layout (35 tracks, 68 granules, FAT and directory on track 17)",
               "names are compared case-insensitively on their first 8 characters; ML load/exec compared only for machine-language files"]
