"""C01 - every instruction statement is encoded as the MC6809 instruction it names."""
from vlib import asmmon, asmjudge, forms
from vlib.forms import Form, POS, NEG, spellings, vclass, traits_of, wrap
from vlib.ref import mc6809 as R
from vlib.core import rng

PROPERTY = "C01"
SHARDED_GEN = True
RULE = ("cases = single statements generated from form records (mnemonic x datasheet addressing form x registers x "
        "value x spelling x carrier literal/EQU/label); each is assembled by the real Program.process under monitors "
        "M1/M2/M5 and the emitted bytes are decoded by the independent datasheet decoder R1 and compared field by field "
        "with the form record. distinct_nontrivial = distinct source statements that were ACCEPTED, decoded and compared "
        "(rejections and must-reject forms are not counted).")
ASSUMPTIONS = ["reference decoder vlib/ref/mc6809.py is a faithful transcription of the MC6809 opcode map (self-tested: "
               "decode/encode fixed point over all opcode x post-byte pairs, illegal opcodes rejected)",
               "direct page assumed 0 (README: SETDP is accepted but the assembler assumes DP=0), so direct $nn == extended $00nn",
               "literal spellings limited to those the README shows: decimal, $hex 1-4 digits, %binary 8/16 digits, 'c alphanumerics"]
REPS = ["LDA", "LDX", "LDY", "LEAX", "NEG", "CMPU", "STB", "ADDD", "JSR"]


def setup(ctx):
    asmmon.install()


def carrier_cases(rep):
    """EQU- and label-carried values for one representative mnemonic."""
    m = R.MODES[rep]
    base = traits_of(rep)
    for v in POS:
        for sc, s in spellings(v, True):
            for order in ("equ-before", "equ-after"):
                tr = dict(base, vclass=vclass(v), spell=sc, carrier=order)
                pre = ["V EQU %s\n" % s] if order == "equ-before" else []
                post = ["V EQU %s\n" % s] if order == "equ-after" else []
                fl = []
                if "imm" in m:
                    bits = m["imm"][1]
                    if v < (1 << bits):
                        fl.append(("imm%d" % bits, "#V", {"mode": "imm", "val": v, "bits": bits}))
                if "ext" in m:
                    fl.append(("mem.plain", "V", {"mode": "mem", "val": v}))
                    fl.append(("mem.ext", ">V", {"mode": "ext", "val": v}))
                    if v < 256:
                        fl.append(("mem.dir", "<V", {"mode": "dir", "val": v}))
                if "idx" in m:
                    fl.append(("extind", "[V]", {"mode": "idx", "kind": "extind", "addr": v}))
                    for ind in (False, True):
                        fl.append(("idx.const", wrap(ind, "V,Y"), {"mode": "idx", "kind": "off", "reg": "Y", "off": v, "ind": ind}))
                for form, opnd, exp in fl:
                    f = Form(rep, rep, form, opnd, exp, dict(tr, ind=exp.get("ind", False)), pre, [])
                    c = f.case()
                    c["lines"] = c["lines"] + asmjudge.TAIL + post
                    c["notail"] = True
                    c["id"] += "/" + order + "/" + s
                    yield c
    # labels: the label's address is dialled with ORG; value checked against the listing address of the label
    for v in [0, 1, 15, 16, 127, 128, 255, 256, 257, 4095, 32767, 32768, 65000]:
        for order in ("label-before", "label-after"):
            tr = dict(base, vclass=vclass(v), spell="sym", carrier=order)
            fl = []
            if "imm" in m and m["imm"][1] == 16:
                fl.append(("imm16", "#V", {"mode": "imm", "val": "V", "bits": 16}))
            if "ext" in m:
                fl.append(("mem.plain", "V", {"mode": "mem", "val": "V"}))
                fl.append(("mem.ext", ">V", {"mode": "ext", "val": "V"}))
            if "idx" in m:
                fl.append(("extind", "[V]", {"mode": "idx", "kind": "extind", "addr": "V"}))
                # a label as the constant offset of an indexed operand (the address of a table plus a pointer register)
                fl.append(("idx.const.label-offset", "V,Y", {"mode": "idx", "kind": "off", "reg": "Y", "off": "V", "ind": False}))
                fl.append(("idx.const.label-offset", "[V,U]", {"mode": "idx", "kind": "off", "reg": "U", "off": "V", "ind": True}))
                fl.append(("idx.const.label-offset", "V+1,X", {"mode": "idx", "kind": "off", "reg": "X", "off": "V+1", "ind": False}))
                fl.append(("idx.const.label-offset", "[V-1,S]", {"mode": "idx", "kind": "off", "reg": "S", "off": "V-1", "ind": True}))
                fl.append(("idx.const.label-offset", "2+V,U", {"mode": "idx", "kind": "off", "reg": "U", "off": "V+2", "ind": False}))
            if v >= 256:
                # a label displaced by a negative EQU constant (K EQU -2): the table entry in front of a label (wave 10, C01-N)
                if "imm" in m and m["imm"][1] == 16:
                    fl.append(("imm16.label-negative-equ", "#V+K", {"mode": "imm", "val": "V-2", "bits": 16}))
                if "ext" in m:
                    fl.append(("mem.plain.label-negative-equ", "V+K", {"mode": "mem", "val": "V-2"}))
                if "idx" in m:
                    fl.append(("extind.label-negative-equ", "[V+K]", {"mode": "idx", "kind": "extind", "addr": "V-2"}))
                    fl.append(("idx.const.label-negative-equ", "V+K,X", {"mode": "idx", "kind": "off", "reg": "X", "off": "V-2", "ind": False}))
            for form, opnd, exp in fl:
                if order == "label-before" and v == 0 and "V-1" in opnd:
                    continue          # label-1 below address 0: outside 0..65535, may be rejected or wrapped (C04) - not C01's business
                if order == "label-before":
                    lines = [" ORG $%X\n" % v, "V NOP\n", " %s %s\n" % (rep, opnd)] + asmjudge.TAIL
                    target = 2
                else:
                    lines = [" ORG $%X\n" % v, " %s %s\n" % (rep, opnd)] + asmjudge.TAIL + ["V NOP\n"]
                    target = 1
                if "K" in opnd:
                    lines, target = ["K EQU -2\n"] + lines, target + 1
                yield {"id": "%s/%s/%s/%s/%d" % (form, rep, opnd, order, v), "lines": lines, "target": target, "mn": rep,
                       "canon": rep, "form": form, "expect": exp, "traits": dict(tr, ind=False), "operand": opnd,
                       "notail": True, "symval": "V"}


def gen_cases(tier, seed, shard, nshards):
    g = 0
    thorough = tier == "thorough"
    vals = list(POS) + list(NEG)
    if thorough:
        ext = set()
        for v in vals:
            for d in (-3, -2, -1, 1, 2, 3):
                if -32768 <= v + d <= 65535:
                    ext.add(v + d)
        vals = sorted(set(vals) | ext)
    r = rng(seed, "C01", "rand")
    randvals = [r.randrange(0, 65536) for _ in range(12 if not thorough else 60)] + [-r.randrange(1, 32769) for _ in range(6 if not thorough else 30)]
    for src, canon in forms.mem_mnemonics():
        g += 1
        if g % nshards != shard:
            continue
        for f in forms.fixed_forms(src, canon):
            yield f.case()
        for f in forms.value_forms(src, canon, vals, full_spell=True):
            yield f.case()
        for f in forms.value_forms(src, canon, randvals, full_spell=False):
            yield f.case()
    for src, canon in R.all_mnemonics():
        if "inh" in R.MODES[canon] and not (set(R.MODES[canon]) & {"imm", "dir", "idx", "ext"}):
            g += 1
            if g % nshards == shard:
                for f in forms.fixed_forms(src, canon):
                    yield f.case()
    g += 1
    if g % nshards == shard:
        for f in forms.reglist_forms(rng(seed, "C01", "reglist")):
            yield f.case()
    g += 1
    if g % nshards == shard:
        for f in forms.regpair_forms():
            yield f.case()
    for rep in REPS:
        g += 1
        if g % nshards == shard:
            for c in carrier_cases(rep):
                yield c
    if thorough:
        # every value of the 16-bit range for representative mnemonics of each trait class, decimal spelling
        for rep in REPS:
            for blk in range(-8, 16):
                g += 1
                if g % nshards != shard:
                    continue
                rv = range(blk * 4096, (blk + 1) * 4096)
                for f in forms.value_forms(rep, rep, rv, full_spell=False, regs="XS"):
                    if f.traits["spell"] == "dec" or (rv.start >= 0 and rv.start % 16384 == 0):
                        yield f.case()


def run_case(case, ctx):
    if case.get("symval"):
        return run_sym_case(case, ctx)
    asmjudge.judge_c01(case, ctx)


def run_sym_case(case, ctx):
    """expected value is the listing address of label V (R3), resolved after assembly"""
    o, lines = asmjudge.observe(case)
    if o.outcome == "ok":
        addr = next((s["addr"] for s in o.stmts if s["label"] == "V"), None)
        exp = dict(case["expect"])
        for k in ("val", "addr", "off"):
            if exp.get(k) == "V":
                exp[k] = addr
            elif isinstance(exp.get(k), str) and exp[k].startswith("V") and addr is not None:
                exp[k] = (addr + int(exp[k][1:])) % 65536
        c2 = dict(case, expect=exp)
    else:
        c2 = dict(case, expect=dict(case["expect"], val=0, addr=0, off=0))
    c2.pop("symval")
    asmjudge.judge_c01(c2, ctx)


def gate(stats):
    out = []
    mon = stats["monitors"]
    if mon.get("R1.decode", 0) == 0:
        out.append("decoder oracle never evaluated")
    need = 0
    for src, canon in R.all_mnemonics():
        for mode in R.MODES[canon]:
            if mode in ("rel",):
                continue
    cells = stats["cells"]
    covered = set(k.split("/")[0] for k in cells)
    missing = [c for s, c in R.all_mnemonics() if c not in covered and "rel" not in R.MODES[c]]
    if missing and stats["outcomes"].get("ok", 0) == 0:
        out.append("no accepted statement decoded")
    return out


def evidence_extra(stats):
    cells = stats["cells"]
    return {"mnemonics_with_accepted_decoded_case": len(set(k.split("/")[0] for k in cells)),
            "mnemonic_form_cells_covered": len(cells)}
