"""C18 - relocating, renaming or reformatting a program changes output only as it must."""
import re
from vlib import asmmon, progs
from vlib.ref import mc6809 as R
from vlib.core import rng

PROPERTY = "C18"
RULE = ("cases = accepted G4 base programs restricted as the property says (label references of the forms label, label+n, label-n; EQU "
        "constants; every instruction form and data directive) x transforms: 3 origin shifts D (all addresses stay in 0..65535 and on the "
        "same side of $100), 2 label bijections (new names avoid register names, with and without '@' / digits), 3 whitespace variants "
        "(blanks/tabs between fields), 2 comment variants, 2 mnemonic-case variants, 3 suffixes (instructions, data, new labels). Both "
        "programs are assembled by the real code; relation oracles: shift - per statement identical bytes except operands the generator "
        "marked 'absolute reference to own label', whose R1-decoded value moves by exactly D (relative displacements identical); "
        "bijection / whitespace / comments / case - identical image and addresses, symbol table identical (up to the renaming); suffix - "
        "bytes, addresses and symbol values of the existing statements unchanged. distinct_nontrivial = distinct (base, transform) "
        "pairs in which both programs were accepted and the relation was evaluated.")
ASSUMPTIONS = ["absolute references are known from the generator's record of each statement, not inferred from text", "reference decoder R1"]
NEWNAMES = [["ALPHA", "BRAVO", "CHARLY", "DELTA9", "ECHO", "FOXT", "GOLF", "HOTEL", "INDIA", "JULIET", "KILO", "LIMA", "MIKE", "NOVEM", "OSCAR", "PAPA",
             "QUEBEC", "ROMEO", "SIERRA", "TANGO", "UNIF", "VICTOR", "WHISKY", "XRAY9", "YANKEE", "ZULU", "AA1", "BB2", "CC3", "DD4"],
            ["N@1", "N@2", "T1", "T2", "Q", "R", "LONGLABEL1", "LONGLABEL2", "ZZ", "Z0", "M", "N", "K9", "J", "H", "G", "F", "E", "C", "W", "V", "T", "P", "O", "L",
             "I", "XX", "YY", "UU", "SS"]]


NEWNAMES.append(["AB", "BD", "ABD", "BA", "DA", "DAB", "AD", "XY", "YU", "US", "SX", "XU", "PCX", "CCC", "DPP", "AA", "BB", "DD", "XX", "YY2", "UUU", "SS1", "PCR1",
                 "XPCR", "APC", "BDP", "ACC", "DCC", "SP", "UX9"])


# names with an underscore: the label field accepts them, so every reference to them has to as well
NEWNAMES.append(["MY_LOOP", "_START", "END_", "A_B", "X_1", "TBL_2", "L_", "_", "__", "S_T_U", "PRINT_CH", "GET_KEY", "VAR_A", "VAR_B", "TMP_1", "TMP_2", "IO_PORT",
                 "X_Y", "A_", "_B", "D_D", "PC_R", "LOOP_1", "LOOP_2", "DONE_", "N_1", "N_2", "N_3", "Q_Q", "Z_9"])


# the pointer registers' own names (a symbol called X is a symbol wherever it is defined - "LDB X" means ,X only when it is not), with
# neighbours that contain PCR
NEWNAMES.append(["X", "Y", "U", "S", "PCRTAB", "MYPCR", "SPCRX", "XS", "SY", "UY", "YX", "SS2", "UU2", "X1", "Y1", "U1", "S1", "X@", "Y@", "U@", "S@", "XPC", "YPC",
                 "UPC", "SPC", "PCRX", "PCRY", "XPCRY", "LPCR", "PCRL"])


def setup(ctx):
    asmmon.install()


def gen_cases(tier, seed):
    thorough = tier == "thorough"
    for k in range(9000 if thorough else 250):
        r = rng(seed, "C18", k)
        org = r.choice([0x200, 0x1000, 0x4000, 0x7F00, 0xC000, None])      # None: no ORG line, the first statement is real code
        p = progs.gen_program(r, r.choice([6, 12, 25, 50]), origin=org)
        yield {"id": "base/%d" % k, "k": k, "prog": p}
    # structured bases whose sizing sits on a boundary: a PCR reference back to a label on the very first statement (no ORG line), or
    # forward to the last one, at distances around the 8-bit limit - a suffix / rename / reformat must not flip the offset width
    def st(label, mn, op, kind, refs=(), abs_=False):
        return {"label": label, "mn": mn, "op": op, "kind": kind, "refs": list(refs), "abs": abs_, "comment": ""}
    for k2 in range(6):
        top = 0xFFFF - k2          # address of the last byte of the program before shifting
        stmts = [st("BEGIN", "LDX", "#{TABLE}+15", "expr", ["TABLE"], True), st("", "LDY", "#{TABLE}+14", "expr", ["TABLE"], True), st("", "JMP", "{TABLE}+15", "expr", ["TABLE"], True),
                 st("", "FDB", "1,2", "fdb"), st("", "LDU", "#{BEGIN}-1", "expr", ["BEGIN"], True), st("TABLE", "RMB", "16", "rmb")]
        size = 3 + 4 + 3 + 4 + 3 + 16
        yield {"id": "top/%d" % k2, "k": k2, "prog": {"origin": top - size + 1, "stmts": stmts, "equs": [], "name": None, "end": None, "org_label": ""}, "shifts": [1, 2, 3, -1, -0x100]}
    for n in (range(96, 132) if thorough else range(108, 130, 2)):
        for org in (None, 0x3000):
            stmts = [st("BUF", "RMB", str(n), "rmb"), st("", "LEAX", "{BUF},PCR", "pcr", ["BUF"]), st("", "LDA", "[{BUF},PCR]", "pcr", ["BUF"]),
                     st("MID", "STA", "{BUF}", "memlbl", ["BUF"], True), st("", "LEAY", "{TAIL},PCR", "pcr", ["TAIL"]), st("", "RMB", str(n - 4), "rmb"), st("TAIL", "RTS", "", "inh")]
            yield {"id": "edge/%d/%s" % (n, org), "k": n, "prog": {"origin": org, "stmts": stmts, "equs": [], "name": None, "end": None, "org_label": ""}}


def obs(lines):
    return asmmon.assemble(lines, keep_program=False)


def bytes_by_stmt(o):
    return [bytes(s["bytes"]) for s in o.stmts]


def decode_val(b):
    """(comparable skeleton, absolute value) of an instruction; the value is the field an absolute reference lives in"""
    d = R.decode_exact(b)
    val = None
    for k in ("val", "addr"):
        if k in d:
            val = d[k]
    if d.get("mode") == "idx" and d.get("kind") == "off" and d.get("width") == 16:
        val = d["off"] % 65536            # a label as the constant offset of a pointer register
        return {k: v for k, v in d.items() if k != "off"}, val, d
    skel = {k: v for k, v in d.items() if k not in ("val", "addr")}
    return skel, val, d


def run_case(case, ctx):
    m0 = asmmon.COUNTS["M1"]
    try:
        _run_case(case, ctx)
    finally:
        n = asmmon.COUNTS["M1"] - m0
        ctx.mon("M1.asm-post", n)
        ctx.evaluations += max(0, n - 2)          # one evaluation per (base, variant) pair actually assembled


def _run_case(case, ctx):
    p = case["prog"]
    r = rng(ctx.seed, "C18", case["id"], "t")
    base_lines = progs.render(p)
    base = obs(base_lines)
    if base.outcome != "ok":
        ctx.outcome("base-not-accepted:" + base.outcome)
        return
    nstm = len(base.stmts)
    skip = nstm - len(p["stmts"]) - len([e for e in p["equs"] if e["pos"] == "bottom"])
    labels = [s["label"] for s in p["stmts"] if s["label"]] + [e["label"] for e in p["equs"]] + ([p["org_label"]] if p.get("org_label") else [])
    has_abs = any(s["abs"] or s["kind"] == "fdblbl" for s in p["stmts"])
    has_rel = any(s["kind"] in ("rel", "lrel", "pcr") for s in p["stmts"])

    def report(form, sym, lines2, o2, extra=None, traits=None):
        w = {"show": "%s %s: %s" % (case["id"], form, sym), "base": "".join(base_lines[:60]), "variant": "".join(lines2[:60]), "variant_outcome": o2.brief()[:100]}
        if extra:
            w.update(extra)
        ctx.violation("metamorphic", form, sym, w, traits or {})
        ctx.outcome("relation-violated")

    def accepted(form, lines2):
        o2 = obs(lines2)
        if o2.outcome != "ok":
            report(form, "VARIANT-NOT-ACCEPTED:%s" % (o2.outcome if o2.outcome == "diag" else o2.outcome + ":" + str(o2.exc)), lines2, o2)
            return None
        return o2

    def same_everything(form, lines2, rename=None):
        o2 = accepted(form, lines2)
        if o2 is None:
            return
        if bytes(o2.image) != bytes(base.image):
            i = next((j for j, (a, b) in enumerate(zip(bytes_by_stmt(base), bytes_by_stmt(o2))) if a != b), None)
            kind = p["stmts"][i - skip]["kind"] if i is not None and 0 <= i - skip < len(p["stmts"]) else "?"
            report(form, "IMAGE-DIFFERS", lines2, o2, {"first_differing_statement": None if i is None else base.listing[i].rstrip()}, {"stmt_kind": kind})
            return
        if [s["addr"] for s in base.stmts] != [s["addr"] for s in o2.stmts]:
            report(form, "ADDRESSES-DIFFER", lines2, o2)
            return
        s1 = asmmon.parse_symbols(base.symbols)
        s2 = asmmon.parse_symbols(o2.symbols)
        if rename:
            s1 = {rename(k): v for k, v in s1.items()}
        if s1 != s2:
            report(form, "SYMBOLS-DIFFER", lines2, o2, {"base_symbols": base.symbols[:8], "variant_symbols": o2.symbols[:8]})
            return
        ctx.outcome("relation-held")
        ctx.nontriv((case["id"], form, "".join(lines2)))
        ctx.cell(form + ("/abs" if has_abs else "") + ("/rel" if has_rel else ""))

    # --- shift by D
    org = p["origin"]
    top = (org or 0) + len(base.image)
    for D in (case.get("shifts") or r.sample([1, 2, 0x10, 0x100, 0x123, 0x1000, -1, -0x10, -0x100, 0x2001], 3)):
        if org is None or org + D < 0x100 or top + D > 0x10000:       # top is one past the last byte
            continue
        lines2 = progs.render(p, origin=org + D)
        o2 = accepted("shift", lines2)
        if o2 is None:
            continue
        ok = True
        for j, (a, b) in enumerate(zip(bytes_by_stmt(base), bytes_by_stmt(o2))):
            st = p["stmts"][j - skip] if 0 <= j - skip < len(p["stmts"]) else None
            if st is not None and st["kind"] == "fdblbl":
                words = lambda x: [int.from_bytes(x[i:i + 2], "big") for i in range(0, len(x), 2)]
                good = len(a) == len(b) == 2 * len(st["wordmask"]) and all(
                    (w2 - w1) % 65536 == (D % 65536 if m else 0) for w1, w2, m in zip(words(a), words(b), st["wordmask"]))
                if not good:
                    report("shift", "ADDRESS-TABLE-NOT-MOVED-BY-D", lines2, o2, {"stmt": base.listing[j].rstrip(), "D": D, "base_bytes": a.hex(), "shifted_bytes": b.hex()}, {"stmt_kind": st["kind"]})
                    ok = False
                    break
            elif st is not None and st["abs"]:
                try:
                    k1, v1, d1 = decode_val(a)
                    k2, v2, d2 = decode_val(b)
                except R.Bad:
                    report("shift", "MALFORMED", lines2, o2, {"stmt": base.listing[j].rstrip()})
                    ok = False
                    break
                if d1["mode"] == "dir" or d2["mode"] == "dir":
                    good = k1 == k2 and (v2 - v1) % 256 == D % 256
                else:
                    good = k1 == k2 and v1 is not None and (v2 - v1) % 65536 == D % 65536
                if not good:
                    report("shift", "ABSOLUTE-REFERENCE-NOT-MOVED-BY-D", lines2, o2, {"stmt": base.listing[j].rstrip(), "D": D, "base_bytes": a.hex(), "shifted_bytes": b.hex()}, {"stmt_kind": st["kind"]})
                    ok = False
                    break
            elif a != b:
                kind = st["kind"] if st else "directive"
                report("shift", "POSITION-INDEPENDENT-BYTES-CHANGED", lines2, o2, {"stmt": base.listing[j].rstrip(), "D": D, "base_bytes": a.hex(), "shifted_bytes": b.hex()}, {"stmt_kind": kind})
                ok = False
                break
        if ok and [s["addr"] + D if s["addr"] is not None and s["mn"] != "EQU" else None for s in base.stmts] != [s["addr"] if s["mn"] != "EQU" else None for s in o2.stmts]:
            report("shift", "ADDRESSES-NOT-SHIFTED-BY-D", lines2, o2, {"D": D})
            ok = False
        if ok:
            ctx.outcome("relation-held")
            ctx.nontriv((case["id"], "shift", D))
            ctx.cell("shift" + ("/abs" if has_abs else "") + ("/rel" if has_rel else ""))
    # --- label bijections
    for pool in NEWNAMES:
        names = r.sample(pool, len(labels)) if len(labels) <= len(pool) else None
        if names is None:
            continue
        mp = dict(zip(labels, names))
        same_everything("rename", progs.render(p, rename=lambda x: mp.get(x, x)), rename=lambda x: mp.get(x, x))
    # --- whitespace
    for ws in ("  ", "\t", None):
        if ws is None:
            same_everything("whitespace", progs.render(p, ws_fn=lambda: r.choice([" ", "  ", "\t", " \t ", "      "])))
        else:
            same_everything("whitespace", progs.render(p, ws=ws))
    # --- line endings and trailing blanks (files that went through another editor or operating system)
    same_everything("whitespace", [l.rstrip("\n") + r.choice(["", " ", "\t", "   "]) + "\n" for l in base_lines])
    same_everything("whitespace", [l.rstrip("\n") + "\r\n" for l in base_lines])
    # a file whose last line has no line terminator, and lines handed over without any trailing blank at all
    same_everything("whitespace", base_lines[:-1] + [base_lines[-1].rstrip()])
    same_everything("whitespace", [l.rstrip() for l in base_lines])
    # --- comments
    same_everything("comments", progs.render(p, comments=lambda i: r.choice([" a comment", "X,Y+1 #$FF", " LDA #1 ; nested ; semicolons", "", " [A,B] \"quoted\" 'c"])))
    same_everything("comments", progs.render(p, comments=lambda i: ""))
    # --- mnemonic case
    same_everything("case", progs.render(p, mncase=str.lower))
    same_everything("case", progs.render(p, mncase=lambda m: "".join(c.lower() if i % 2 else c for i, c in enumerate(m))))
    # --- suffixes
    for variant in range(3):
        if (p["origin"] or 0) + len(base.image) + 300 > 0x10000:
            break                          # no room above the program: an appended statement would legitimately run past $FFFF
        suf = []
        for j in range(r.randrange(1, 6)):
            kind = r.choice(["inh", "data", "label", "ref"])
            if kind == "inh":
                suf.append({"label": "", "mn": r.choice(progs.INH), "op": ""})
            elif kind == "data":
                suf.append(r.choice([{"label": "", "mn": "FCB", "op": "1,2,3"}, {"label": "", "mn": "RMB", "op": "64"}, {"label": "", "mn": "RMB", "op": "200"},
                                     {"label": "", "mn": "FCC", "op": '"HELLO WORLD!"'}, {"label": "", "mn": "FDB", "op": "1,2,3,4,5,6,7,8"}]))
            elif kind == "label":
                suf.append({"label": "SFX%d%d" % (variant, j), "mn": "NOP", "op": ""})
            else:
                suf.append({"label": "", "mn": r.choice(["JMP", "LDX", "LBRA"]), "op": "{%s}" % r.choice([s["label"] for s in p["stmts"] if s["label"]])})
        lines2 = progs.render(p, suffix=suf)
        o2 = accepted("suffix", lines2)
        if o2 is None:
            continue
        n0 = len(base.stmts)
        # statements of the base keep their position unless bottom EQUs exist (they stay last in the base rendering): compare by listing text
        b1 = [(s["addr"], bytes(s["bytes"])) for s in base.stmts]
        b2 = [(s["addr"], bytes(s["bytes"])) for s in o2.stmts]
        pre_ok = all(x in b2 for x in b1) and b2[:skip + len(p["stmts"])] == b1[:skip + len(p["stmts"])]
        s1 = asmmon.parse_symbols(base.symbols)
        s2 = asmmon.parse_symbols(o2.symbols)
        if not pre_ok:
            report("suffix", "PREFIX-BYTES-OR-ADDRESSES-CHANGED", lines2, o2)
        elif any(s2.get(k) != v for k, v in s1.items()):
            report("suffix", "PREFIX-SYMBOLS-CHANGED", lines2, o2)
        else:
            ctx.outcome("relation-held")
            ctx.nontriv((case["id"], "suffix", variant))
            ctx.cell("suffix" + ("/abs" if has_abs else "") + ("/rel" if has_rel else ""))
    if len(ctx.samples) < 2 and len(base_lines) < 12:
        ctx.sample({"base": [l.rstrip() for l in base_lines], "image": bytes(base.image).hex()})


def gate(stats):
    out = []
    c = stats["cells"]
    for rel in ("shift", "rename", "whitespace", "comments", "case", "suffix"):
        if not any(k.startswith(rel) and "/abs" in k for k in c) or not any(k.startswith(rel) and "/rel" in k for k in c):
            out.append("relation %s not evaluated on a program with absolute and one with relative label references" % rel)
    return out
