"""
M6 fs-audit: interpreter-level audit hook recording every file-system effect the process performs
(open with its mode/flags, remove, rename, replace, truncate, mkdir, rmdir), in program order, plus
before/after snapshots (sha256, size, mtime_ns) of a case's temp directory.  Also an in-process runner for
the two CLIs (runpy.run_path with patched argv / cwd / stdout) so that events are attributed to one invocation.
"""
import os, sys, io, hashlib, runpy, contextlib

REPO = os.environ.get("VERIF_REPO", "/repo")
_events = None
_installed = False
WRITE_FLAGS = os.O_WRONLY | os.O_RDWR | os.O_CREAT | os.O_TRUNC | os.O_APPEND
COUNT = {"events": 0}


def _hook(ev, args):
    if _events is None:
        return
    try:
        if ev == "open":
            path, mode, flags = args
            if isinstance(path, (str, bytes)):
                if isinstance(path, bytes):
                    path = path.decode(errors="replace")
                w = bool(flags & WRITE_FLAGS) if isinstance(flags, int) else (mode is not None and any(c in str(mode) for c in "wax+"))
                _events.append(("open-w" if w else "open-r", os.path.abspath(path)))
                COUNT["events"] += 1
        elif ev in ("os.remove", "os.unlink", "os.rmdir", "os.mkdir", "os.truncate", "os.chmod"):
            _events.append((ev, os.path.abspath(str(args[0]))))
            COUNT["events"] += 1
        elif ev in ("os.rename", "os.replace", "shutil.move", "shutil.copyfile", "os.link", "os.symlink"):
            _events.append((ev, os.path.abspath(str(args[0])), os.path.abspath(str(args[1]))))
            COUNT["events"] += 1
    except Exception:
        pass


def install():
    global _installed
    if not _installed:
        sys.addaudithook(_hook)
        _installed = True


@contextlib.contextmanager
def recording():
    global _events
    install()
    prev = _events
    _events = []
    try:
        yield _events
    finally:
        _events = prev


def snapshot(root):
    out = {}
    for dp, dn, fn in os.walk(root):
        for f in fn:
            p = os.path.join(dp, f)
            try:
                st = os.stat(p)
                with open(p, "rb") as fh:
                    h = hashlib.sha256(fh.read()).hexdigest()
                out[os.path.relpath(p, root)] = (h, st.st_size, st.st_mtime_ns)
            except OSError:
                out[os.path.relpath(p, root)] = None
    return out


def diff_snap(a, b):
    """names created / removed / content-changed / touched (mtime only)"""
    created = sorted(set(b) - set(a))
    removed = sorted(set(a) - set(b))
    changed = sorted(k for k in a if k in b and a[k] and b[k] and a[k][0] != b[k][0])
    touched = sorted(k for k in a if k in b and a[k] and b[k] and a[k][0] == b[k][0] and a[k][2] != b[k][2])
    return {"created": created, "removed": removed, "changed": changed, "touched": touched}


class CliResult(object):
    def __init__(self):
        self.code = None
        self.out = ""
        self.exc = None
        self.events = []
        self.fsdiff = None
        self.where = None


def run_cli(tool, argv, cwd):
    """Run /repo/<tool> in-process as __main__ with cwd and argv; returns CliResult (exit status, stdout+stderr, events, fs diff)."""
    import traceback
    res = CliResult()
    script = os.path.join(REPO, tool)
    old_argv, old_cwd = sys.argv, os.getcwd()
    buf = io.StringIO()
    before = snapshot(cwd)
    os.chdir(cwd)
    sys.argv = [script] + list(argv)
    try:
        with recording() as ev, contextlib.redirect_stdout(buf), contextlib.redirect_stderr(buf):
            try:
                runpy.run_path(script, run_name="__main__")
                res.code = 0
            except SystemExit as e:
                res.code = e.code if isinstance(e.code, int) else (0 if e.code is None else 1)
            except BaseException as e:
                if type(e).__name__ in ("Hung", "KeyboardInterrupt"):
                    raise
                res.code = 1
                res.exc = type(e).__name__
                where = None
                for fr in traceback.extract_tb(e.__traceback__):
                    if fr.filename.startswith(REPO):
                        where = "%s.%s" % (os.path.basename(fr.filename)[:-3], fr.name)
                res.where = where
                buf.write("Traceback: %s: %s" % (type(e).__name__, str(e)[:200]))
        res.events = [e for e in ev if any(str(x).startswith(os.path.abspath(cwd)) for x in e[1:])]
    finally:
        sys.argv = old_argv
        os.chdir(old_cwd)
    res.out = buf.getvalue()
    res.fsdiff = diff_snap(before, snapshot(cwd))
    return res
