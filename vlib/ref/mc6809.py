"""
R1 - independent MC6809 decoder written from the Motorola datasheet opcode map (pages 1/2/3)
and the indexed post-byte table.  Imports nothing from the repository under test.

decode(b, i)      -> (fields, next_i)     raises Bad(reason) on truncated / illegal input
decode_exact(b)   -> fields               additionally requires all bytes consumed
encode(fields)    -> bytes                inverse of decode (used only to validate the decoder)
MODES             -> {mnemonic: {mode: (opcode bytes, operand bits)}}  datasheet availability of modes
"""
ROW0 = {0x0: 'NEG', 0x3: 'COM', 0x4: 'LSR', 0x6: 'ROR', 0x7: 'ASR', 0x8: 'ASL', 0x9: 'ROL', 0xA: 'DEC', 0xC: 'INC',
        0xD: 'TST', 0xE: 'JMP', 0xF: 'CLR'}
AOPS = {0x0: ('SUBA', 8), 0x1: ('CMPA', 8), 0x2: ('SBCA', 8), 0x3: ('SUBD', 16), 0x4: ('ANDA', 8), 0x5: ('BITA', 8),
        0x6: ('LDA', 8), 0x7: ('STA', 8), 0x8: ('EORA', 8), 0x9: ('ADCA', 8), 0xA: ('ORA', 8), 0xB: ('ADDA', 8),
        0xC: ('CMPX', 16), 0xD: ('JSR', 0), 0xE: ('LDX', 16), 0xF: ('STX', 16)}
BOPS = {0x0: ('SUBB', 8), 0x1: ('CMPB', 8), 0x2: ('SBCB', 8), 0x3: ('ADDD', 16), 0x4: ('ANDB', 8), 0x5: ('BITB', 8),
        0x6: ('LDB', 8), 0x7: ('STB', 8), 0x8: ('EORB', 8), 0x9: ('ADCB', 8), 0xA: ('ORB', 8), 0xB: ('ADDB', 8),
        0xC: ('LDD', 16), 0xD: ('STD', 16), 0xE: ('LDU', 16), 0xF: ('STU', 16)}
BR = ['BRA', 'BRN', 'BHI', 'BLS', 'BCC', 'BCS', 'BNE', 'BEQ', 'BVC', 'BVS', 'BPL', 'BMI', 'BGE', 'BLT', 'BGT', 'BLE']
INH1 = {0x12: 'NOP', 0x13: 'SYNC', 0x19: 'DAA', 0x1D: 'SEX', 0x39: 'RTS', 0x3A: 'ABX', 0x3B: 'RTI', 0x3D: 'MUL',
        0x3F: 'SWI'}
IMM8 = {0x1A: 'ORCC', 0x1C: 'ANDCC', 0x3C: 'CWAI'}
STACK = {0x34: 'PSHS', 0x35: 'PULS', 0x36: 'PSHU', 0x37: 'PULU'}
LEA = {0x30: 'LEAX', 0x31: 'LEAY', 0x32: 'LEAS', 0x33: 'LEAU'}
P2 = {0x83: ('CMPD', 16), 0x8C: ('CMPY', 16), 0x8E: ('LDY', 16), 0x8F: ('STY', 16), 0xCE: ('LDS', 16),
      0xCF: ('STS', 16)}
P3 = {0x83: ('CMPU', 16), 0x8C: ('CMPS', 16)}
TFRREG = {0: 'D', 1: 'X', 2: 'Y', 3: 'U', 4: 'S', 5: 'PC', 8: 'A', 9: 'B', 10: 'CC', 11: 'DP'}
IDXREG = ['X', 'Y', 'U', 'S']
ALIAS = {'LSL': 'ASL', 'LSLA': 'ASLA', 'LSLB': 'ASLB', 'BHS': 'BCC', 'BLO': 'BCS', 'LBHS': 'LBCC', 'LBLO': 'LBCS'}
STORES = ('STA', 'STB', 'STX', 'STD', 'STU', 'STY', 'STS', 'JSR')


def canon(mn):
    return ALIAS.get(mn, mn)


class Bad(Exception):
    pass


def s8(v):
    return v - 256 if v >= 128 else v


def s16(v):
    return v - 65536 if v >= 32768 else v


def need(b, i, n):
    if i + n > len(b):
        raise Bad('truncated')


def dec_indexed(b, i):
    need(b, i, 1)
    pb = b[i]
    i += 1
    reg = IDXREG[(pb >> 5) & 3]
    if not pb & 0x80:
        off = pb & 0x1F
        off = off - 32 if off & 0x10 else off
        return dict(kind='off', reg=reg, off=off, width=5, ind=False), i
    ind = bool(pb & 0x10)
    m = pb & 0x0F
    if m in (0, 2) and ind:
        raise Bad('illegal indirect inc/dec by 1')
    if m == 0:
        return dict(kind='inc1', reg=reg, ind=ind), i
    if m == 1:
        return dict(kind='inc2', reg=reg, ind=ind), i
    if m == 2:
        return dict(kind='dec1', reg=reg, ind=ind), i
    if m == 3:
        return dict(kind='dec2', reg=reg, ind=ind), i
    if m == 4:
        return dict(kind='off', reg=reg, off=0, width=0, ind=ind), i
    if m == 5:
        return dict(kind='acc', acc='B', reg=reg, ind=ind), i
    if m == 6:
        return dict(kind='acc', acc='A', reg=reg, ind=ind), i
    if m == 0xB:
        return dict(kind='acc', acc='D', reg=reg, ind=ind), i
    if m == 8:
        need(b, i, 1)
        return dict(kind='off', reg=reg, off=s8(b[i]), width=8, ind=ind), i + 1
    if m == 9:
        need(b, i, 2)
        return dict(kind='off', reg=reg, off=s16(b[i] << 8 | b[i + 1]), width=16, ind=ind), i + 2
    if m == 0xC:
        need(b, i, 1)
        return dict(kind='pcr', off=s8(b[i]), width=8, ind=ind, pbreg=reg), i + 1
    if m == 0xD:
        need(b, i, 2)
        return dict(kind='pcr', off=s16(b[i] << 8 | b[i + 1]), width=16, ind=ind, pbreg=reg), i + 2
    if m == 0xF:
        if pb != 0x9F:
            raise Bad('illegal postbyte %02X' % pb)
        need(b, i, 2)
        return dict(kind='extind', addr=b[i] << 8 | b[i + 1], ind=True), i + 2
    raise Bad('illegal postbyte %02X' % pb)


def decode(b, i=0):
    """decode one instruction at b[i:]; returns (dict, next_i)"""
    need(b, i, 1)
    op = b[i]
    i += 1
    page = 1
    if op in (0x10, 0x11):
        page = 2 if op == 0x10 else 3
        need(b, i, 1)
        op = b[i]
        i += 1
        if op in (0x10, 0x11):
            raise Bad('double prefix')

    def mem(mn, bits, hi):
        nonlocal i
        if hi == 0:  # immediate
            n = bits // 8
            need(b, i, n)
            v = int.from_bytes(b[i:i + n], 'big')
            i += n
            return dict(mn=mn, mode='imm', bits=bits, val=v)
        if hi == 1:
            need(b, i, 1)
            v = b[i]
            i += 1
            return dict(mn=mn, mode='dir', val=v)
        if hi == 2:
            d, i = dec_indexed(b, i)
            d.update(mn=mn, mode='idx')
            return d
        need(b, i, 2)
        v = b[i] << 8 | b[i + 1]
        i += 2
        return dict(mn=mn, mode='ext', val=v)

    if page == 1:
        hi, lo = op >> 4, op & 15
        if hi == 0 and lo in ROW0:
            return mem(ROW0[lo], 8, 1), i
        if hi == 6 and lo in ROW0:
            return mem(ROW0[lo], 8, 2), i
        if hi == 7 and lo in ROW0:
            return mem(ROW0[lo], 8, 3), i
        if hi in (4, 5) and lo in ROW0 and lo != 0xE:
            return dict(mn=ROW0[lo] + 'AB'[hi - 4], mode='inh'), i
        if op in INH1:
            return dict(mn=INH1[op], mode='inh'), i
        if op in IMM8:
            need(b, i, 1)
            return dict(mn=IMM8[op], mode='imm', bits=8, val=b[i]), i + 1
        if op in (0x16, 0x17):
            need(b, i, 2)
            return dict(mn='LBRA' if op == 0x16 else 'LBSR', mode='rel', width=16, off=s16(b[i] << 8 | b[i + 1])), i + 2
        if op in (0x1E, 0x1F):
            need(b, i, 1)
            pb = b[i]
            if (pb >> 4) not in TFRREG or (pb & 15) not in TFRREG:
                raise Bad('bad tfr reg')
            r0, r1 = TFRREG[pb >> 4], TFRREG[pb & 15]
            if ((pb >> 4) >= 8) != ((pb & 15) >= 8):
                raise Bad('tfr size mismatch')
            return dict(mn='EXG' if op == 0x1E else 'TFR', mode='regpair', r0=r0, r1=r1), i + 1
        if hi == 2:
            need(b, i, 1)
            return dict(mn=BR[lo], mode='rel', width=8, off=s8(b[i])), i + 1
        if op in LEA:
            d, i = dec_indexed(b, i)
            d.update(mn=LEA[op], mode='idx')
            return d, i
        if op in STACK:
            need(b, i, 1)
            pb = b[i]
            mn = STACK[op]
            other = 'U' if mn.endswith('S') else 'S'
            names = ['CC', 'A', 'B', 'DP', 'X', 'Y', other, 'PC']
            return dict(mn=mn, mode='reglist', regs=frozenset(names[k] for k in range(8) if pb >> k & 1)), i + 1
        if op == 0x8D:
            need(b, i, 1)
            return dict(mn='BSR', mode='rel', width=8, off=s8(b[i])), i + 1
        if hi >= 8:
            tab = AOPS if hi < 0xC else BOPS
            mn, bits = tab[lo]
            m = (hi - 8) & 3
            if m == 0 and mn in STORES:
                raise Bad('illegal opcode %02X' % op)
            return mem(mn, bits, m), i
        raise Bad('illegal opcode %02X' % op)
    if page == 2:
        if op == 0x3F:
            return dict(mn='SWI2', mode='inh'), i
        if 0x21 <= op <= 0x2F:
            need(b, i, 2)
            return dict(mn='L' + BR[op & 15], mode='rel', width=16, off=s16(b[i] << 8 | b[i + 1])), i + 2
        base = (op & 0xCF)
        hi = (op >> 4) & 3
        if op >= 0x80 and base in P2:
            mn, bits = P2[base]
            if hi == 0 and mn in ('STY', 'STS'):
                raise Bad('illegal p2 %02X' % op)
            return mem(mn, bits, hi), i
        raise Bad('illegal p2 opcode %02X' % op)
    if op == 0x3F:
        return dict(mn='SWI3', mode='inh'), i
    base = (op & 0xCF)
    hi = (op >> 4) & 3
    if 0x80 <= op < 0xC0 and base in P3:
        mn, bits = P3[base]
        return mem(mn, bits, hi), i
    raise Bad('illegal p3 opcode %02X' % op)


def decode_exact(b):
    d, i = decode(bytes(b), 0)
    if i != len(b):
        raise Bad('trailing %d bytes' % (len(b) - i))
    return d


# ---------------------------------------------------------------- datasheet mode table, derived from the map above

def _build_modes():
    modes = {}
    pads = [bytes([0x84, 0, 0]), bytes([0, 0, 0]), bytes([0x88, 0, 0])]
    prefixes = [bytes([o]) for o in range(256) if o not in (0x10, 0x11)]
    prefixes += [bytes([0x10, o]) for o in range(256)] + [bytes([0x11, o]) for o in range(256)]
    for p in prefixes:
        for pad in pads:
            try:
                d, n = decode(p + pad)
            except Bad:
                continue
            bits = d.get('bits', d.get('width', 0))
            modes.setdefault(d['mn'], {})[d['mode']] = (p, bits)
            break
    return modes


MODES = _build_modes()
OPERAND_BITS = {}
for _t in (AOPS, BOPS, P2, P3):
    for _mn, _b in _t.values():
        OPERAND_BITS[_mn] = _b
for _mn in IMM8.values():
    OPERAND_BITS[_mn] = 8


def all_mnemonics():
    """canonical mnemonics plus aliases, as (source mnemonic, canonical)"""
    out = [(m, m) for m in sorted(MODES)]
    out += [(a, c) for a, c in sorted(ALIAS.items())]
    return out


# ---------------------------------------------------------------- encoder (validation of the decoder only)

def enc_indexed(d):
    k = d['kind']
    if k == 'extind':
        return bytes([0x9F, d['addr'] >> 8, d['addr'] & 255])
    ind = 0x10 if d['ind'] else 0
    if k == 'pcr':
        r = IDXREG.index(d.get('pbreg', 'X')) << 5
        if d['width'] == 8:
            return bytes([0x8C | ind | r, d['off'] & 255])
        return bytes([0x8D | ind | r, (d['off'] >> 8) & 255, d['off'] & 255])
    r = IDXREG.index(d['reg']) << 5
    if k == 'off':
        w = d['width']
        if w == 5:
            return bytes([r | (d['off'] & 0x1F)])
        if w == 0:
            return bytes([0x84 | r | ind])
        if w == 8:
            return bytes([0x88 | r | ind, d['off'] & 255])
        return bytes([0x89 | r | ind, (d['off'] >> 8) & 255, d['off'] & 255])
    if k == 'acc':
        return bytes([{'B': 0x85, 'A': 0x86, 'D': 0x8B}[d['acc']] | r | ind])
    return bytes([{'inc1': 0x80, 'inc2': 0x81, 'dec1': 0x82, 'dec2': 0x83}[k] | r | ind])


def encode(d):
    op, _bits = MODES[d['mn']][d['mode']]
    m = d['mode']
    if m == 'inh':
        return op
    if m == 'imm':
        return op + d['val'].to_bytes(d['bits'] // 8, 'big')
    if m == 'dir':
        return op + bytes([d['val']])
    if m == 'ext':
        return op + d['val'].to_bytes(2, 'big')
    if m == 'idx':
        return op + enc_indexed(d)
    if m == 'rel':
        return op + ((d['off'] & 255).to_bytes(1, 'big') if d['width'] == 8 else (d['off'] & 65535).to_bytes(2, 'big'))
    if m == 'regpair':
        inv = {v: k for k, v in TFRREG.items()}
        return op + bytes([inv[d['r0']] << 4 | inv[d['r1']]])
    if m == 'reglist':
        other = 'U' if d['mn'].endswith('S') else 'S'
        names = ['CC', 'A', 'B', 'DP', 'X', 'Y', other, 'PC']
        return op + bytes([sum(1 << k for k in range(8) if names[k] in d['regs'])])
    raise Bad('cannot encode')


def selftest(n=200000, seed=1):
    """decode/encode fixed point over random byte strings and over every opcode x post-byte; returns count checked"""
    import random
    r = random.Random(seed)
    checked = 0
    cases = []
    for p in [bytes([o]) for o in range(256)] + [bytes([0x10, o]) for o in range(256)] + [bytes([0x11, o]) for o in range(256)]:
        for pb in range(256):
            cases.append(p + bytes([pb, r.randrange(256), r.randrange(256)]))
    for _ in range(n):
        cases.append(bytes(r.randrange(256) for _ in range(5)))
    for b in cases:
        try:
            d, i = decode(b)
        except Bad:
            continue
        e = encode(d)
        if e != b[:i]:
            raise AssertionError("decode/encode mismatch %s -> %r -> %s" % (b.hex(), d, e.hex()))
        checked += 1
    # published fixed points (datasheet examples / README listing)
    pub = {"8EC000": ('LDX', 'imm'), "A680": ('LDA', 'idx'), "1F89": ('TFR', 'regpair'), "3406": ('PSHS', 'reglist'),
           "10CE0100": ('LDS', 'imm'), "1183FFFF": ('CMPU', 'imm'), "7E1234": ('JMP', 'ext'), "0F10": ('CLR', 'dir'),
           "20FE": ('BRA', 'rel'), "1027FFFC": ('LBEQ', 'rel'), "3F": ('SWI', 'inh'), "103F": ('SWI2', 'inh'),
           "113F": ('SWI3', 'inh'), "A69F1234": ('LDA', 'idx'), "308C10": ('LEAX', 'idx'), "E7E2": ('STB', 'idx')}
    for h, (mn, mode) in pub.items():
        d = decode_exact(bytes.fromhex(h))
        assert (d['mn'], d['mode']) == (mn, mode), (h, d)
    for bad in ("01", "8700", "CD0000", "108F0000", "A687", "A68A", "A68E", "A690", "A692", "A6BF0000", "1E81", "1010",
                "4E", "1020", "38"):
        try:
            decode_exact(bytes.fromhex(bad))
        except Bad:
            continue
        raise AssertionError("decoder accepted illegal " + bad)
    return checked


if __name__ == '__main__':
    import sys
    if sys.argv[1:] == ['selftest']:
        print('selftest ok', selftest())
    else:
        for h in sys.argv[1:]:
            try:
                print(h, decode_exact(bytes.fromhex(h)))
            except Bad as e:
                print(h, 'BAD', e)
