"""
R5 - Disk BASIC (RS-DOS) filesystem checker, reader and writer for 35-track JVC-less .dsk images.
Written from the Disk BASIC layout; imports nothing from the repository.

 35 tracks x 18 sectors x 256 bytes = 161280.  Granule g (0..67) = 9 sectors: offset 2304*g for g<34, 2304*(g+2)
 for g>=34 (track 17 holds FAT + directory).  FAT = first 68 bytes of track 17 sector 2; directory = track 17
 sectors 3..11, 72 entries x 32 bytes: name[8] ext[3] type ascii first_granule bytes_in_last_sector[2] reserved[16].
"""
IMAGE = 161280
GRAN = 2304
T17 = 17 * 4608
FAT = T17 + 256
DIR = T17 + 512
NGR = 68
NSLOT = 72


def goff(g):
    return GRAN * g if g < 34 else GRAN * (g + 2)


class FsError(Exception):
    pass


def fsck(img):
    """-> (files, errors).  files: dicts(slot,name,ext,ftype,ascii,chain,secs,lastbytes,implied,stream,[load,exec,data]).
    errors: list of tuples, first element a clause name of C08."""
    img = bytes(img)
    errs = []
    if len(img) != IMAGE:
        return [], [("image-size", len(img))]
    fat = img[FAT:FAT + NGR]
    owner = {}
    files = []
    for slot in range(NSLOT):
        e = img[DIR + 32 * slot:DIR + 32 * slot + 32]
        if e[0] in (0x00, 0xFF):
            continue
        name, ext, ftype, asc, first, lastbytes = e[0:8], e[8:11], e[11], e[12], e[13], e[14] << 8 | e[15]
        chain = []
        g = first
        secs = None
        while True:
            if not 0 <= g < NGR:
                errs.append(("chain-out-of-range", slot, g))
                break
            if g in chain:
                errs.append(("chain-revisits-granule", slot, g))
                break
            if g in owner:
                errs.append(("chains-share-granule", slot, g, owner[g]))
                break
            chain.append(g)
            owner[g] = slot
            v = fat[g]
            if 0xC0 <= v <= 0xC9:
                secs = v & 0x0F
                break
            if v >= NGR:
                errs.append(("chain-bad-terminator", slot, g, v))
                break
            g = v
        f = dict(slot=slot, name=name, ext=ext, ftype=ftype, ascii=asc, chain=chain, first=first)
        if secs is None:
            f["broken"] = True
            files.append(f)
            continue
        if lastbytes > 256:
            errs.append(("last-sector-bytes>256", slot, lastbytes))
        if secs == 0:
            implied = (len(chain) - 1) * GRAN
            if lastbytes != 0:
                errs.append(("zero-sectors-with-bytes", slot, lastbytes))
        else:
            implied = (len(chain) - 1) * GRAN + (secs - 1) * 256 + lastbytes
        stream = b"".join(img[goff(g):goff(g) + GRAN] for g in chain)[:implied]
        f.update(secs=secs, lastbytes=lastbytes, implied=implied, stream=stream)
        if ftype == 2:
            if len(stream) < 10 or stream[0] != 0:
                errs.append(("ml-header", slot, stream[:5].hex()))
            else:
                ln = stream[1] << 8 | stream[2]
                f["load"] = stream[3] << 8 | stream[4]
                if implied != ln + 10:
                    errs.append(("implied-length-vs-stream", slot, implied, ln + 10))
                f["data"] = stream[5:5 + ln]
                tr = stream[5 + ln:5 + ln + 5]
                if len(tr) != 5 or tr[0:3] != b"\xff\x00\x00":
                    errs.append(("ml-trailer", slot, tr.hex()))
                else:
                    f["exec"] = tr[3] << 8 | tr[4]
        elif asc == 0xFF:
            f["data"] = stream
        else:
            if len(stream) < 3 or stream[0] != 0xFF:
                errs.append(("basic-header", slot, stream[:3].hex()))
            else:
                ln = stream[1] << 8 | stream[2]
                if implied != ln + 3:
                    errs.append(("implied-length-vs-stream", slot, implied, ln + 3))
                f["data"] = stream[3:3 + ln]
        files.append(f)
    for g in range(NGR):
        if fat[g] != 0xFF and g not in owner:
            errs.append(("fat-entry-on-no-chain", g, fat[g]))
    # bytes outside allocated granules / FAT sector / directory sectors must equal a freshly formatted image ($FF)
    regions = [(goff(g), goff(g) + GRAN, "granule-%d" % g) for g in range(NGR) if g not in owner]
    regions += [(T17, FAT, "track17"), (DIR + 9 * 256, T17 + 4608, "track17")]
    nstray, first, where = 0, None, None
    for a, b, nm in regions:
        c = (b - a) - img.count(0xFF, a, b)
        if c:
            nstray += c
            if first is None:
                first = next(i for i in range(a, b) if img[i] != 0xFF)
                where = nm
    if nstray:
        errs.append(("stray-bytes-outside-allocation", nstray, first, where))
    return files, errs


def free_granules(img):
    return [g for g in range(NGR) if img[FAT + g] == 0xFF]


def free_slots(img):
    return [s for s in range(NSLOT) if img[DIR + 32 * s] in (0x00, 0xFF)]


def blank():
    return bytearray(b"\xFF" * IMAGE)


def stream_of(f):
    """stored stream of a file dict(ftype, ascii, load, exec, data)"""
    data = bytes(f["data"])
    if f["ftype"] == 2:
        return bytes([0, len(data) >> 8, len(data) & 255, f["load"] >> 8, f["load"] & 255]) + data + bytes([0xFF, 0, 0, f["exec"] >> 8, f["exec"] & 255])
    if f["ascii"] == 0xFF:
        return data
    return bytes([0xFF, len(data) >> 8, len(data) & 255]) + data


def write_file(img, f, chain_order, slot=None, convention="n+1"):
    """Writer for foreign images: stores file f on the given granules in the given (arbitrary) chain order."""
    st = stream_of(f)
    need = max(1, -(-len(st) // GRAN))
    if convention == "n+1" and len(st) % GRAN == 0 and len(st) > 0:
        pass
    chain = list(chain_order)[:need]
    if len(chain) < need:
        raise FsError("not enough granules")
    for k, g in enumerate(chain):
        part = st[k * GRAN:(k + 1) * GRAN]
        img[goff(g):goff(g) + len(part)] = part
    rem = len(st) - (need - 1) * GRAN
    secs = -(-rem // 256)
    lastbytes = rem - (secs - 1) * 256 if secs else 0
    for a, b in zip(chain, chain[1:]):
        img[FAT + a] = b
    img[FAT + chain[-1]] = 0xC0 + secs
    if slot is None:
        slot = free_slots(img)[0]
    e = bytes(f["name"]).ljust(8)[:8] + bytes(f["ext"]).ljust(3)[:3] + bytes([f["ftype"], f["ascii"], chain[0], lastbytes >> 8, lastbytes & 255]) + bytes(16)
    img[DIR + 32 * slot:DIR + 32 * slot + 32] = e
    return chain


def selftest():
    import random
    r = random.Random(3)
    n = 0
    for _ in range(40):
        img = blank()
        free = list(range(NGR))
        r.shuffle(free)
        files = []
        for k in range(r.randrange(1, 6)):
            ln = r.choice([0, 1, 5, 2294, 2295, 2304, 4598, 4603, 5000, 250, 256])
            f = dict(name=b"F%d" % k, ext=b"BIN", ftype=r.choice([0, 2, 2, 1]), ascii=r.choice([0, 0, 0xFF]), load=r.randrange(65536),
                     exec=r.randrange(65536), data=bytes(r.randrange(256) for _ in range(ln)))
            if f["ftype"] != 2 and f["ascii"] == 0xFF and ln == 0:
                f["data"] = b"A"
            need = max(1, -(-len(stream_of(f)) // GRAN))
            chain = [free.pop() for _ in range(need)]
            write_file(img, f, chain)
            files.append(f)
        got, errs = fsck(img)
        assert not errs, errs
        assert len(got) == len(files)
        for a, b in zip(got, files):
            assert a["data"] == b["data"] and a["name"].rstrip() == b["name"], (a["name"], b["name"])
        n += 1
    # one negative test per clause
    img = blank()
    f = dict(name=b"A", ext=b"BIN", ftype=2, ascii=0, load=0x1000, exec=0x1000, data=bytes(3000))
    write_file(img, f, [5, 9])
    assert not fsck(img)[1]

    def broken(mut):
        im = bytearray(img)
        mut(im)
        return [e[0] for e in fsck(im)[1]]
    assert "chain-out-of-range" in broken(lambda im: im.__setitem__(DIR + 13, 70))
    assert "chain-revisits-granule" in broken(lambda im: im.__setitem__(FAT + 9, 5))
    assert "chain-bad-terminator" in broken(lambda im: im.__setitem__(FAT + 9, 0xCA))
    assert "fat-entry-on-no-chain" in broken(lambda im: im.__setitem__(FAT + 20, 0xC1))
    assert "implied-length-vs-stream" in broken(lambda im: im.__setitem__(FAT + 9, 0xC2))
    assert "ml-trailer" in broken(lambda im: im.__setitem__(goff(9) + 3000 + 5 - GRAN, 0x00))
    assert "ml-header" in broken(lambda im: im.__setitem__(goff(5), 0x01))
    assert "stray-bytes-outside-allocation" in broken(lambda im: im.__setitem__(goff(40) + 7, 0x00))
    assert "stray-bytes-outside-allocation" in broken(lambda im: im.__setitem__(T17 + 3, 0x00))
    assert fsck(bytes(img) + b"\xff")[1][0][0] == "image-size"
    im2 = bytearray(img)
    write_file(im2, dict(f, name=b"B"), [9, 11])
    assert "chains-share-granule" in [e[0] for e in fsck(im2)[1]]
    return n


if __name__ == "__main__":
    print("dskfs selftest ok", selftest())
