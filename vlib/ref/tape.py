"""
R4 - strict CoCo cassette stream parser and hostile-but-well-formed tape generator.
Written from the Color BASIC tape format; imports nothing from the repository.

Grammar (each block carries its own leading and trailing $55):
   block(t,n) := 55 3C t n payload[n] cksum 55      cksum = (t + n + sum(payload)) mod 256
   filler     := (00 | 55)*
   file       := filler(with >=1 $55 directly before the sync) block(00,15)
                 filler block(01,1..255) (filler block(01,1..255))* filler block(FF,0)
                 (an empty file has no data block)
   tape       := file* filler
"""


class TapeError(Exception):
    def __init__(self, msg, offset):
        Exception.__init__(self, "%s at offset %d" % (msg, offset))
        self.reason = msg
        self.offset = offset


def parse(buf, require_leaders=True):
    """require_leaders: the name-file block and the first data block (or the EOF block of an empty file) must be
    preceded by a leader = at least one $55 in addition to the block's own leading $55.
    -> list of dicts(name(bytes8), ftype, dtype, gap, load, exec, data(bytes), blocks[list of lengths], start, end)"""
    buf = bytes(buf)
    n = len(buf)
    i = 0
    files = []

    def skip_filler(i):
        while i < n and buf[i] in (0x00, 0x55):
            i += 1
        return i

    def block(k):
        # buf[k] is the sync byte 3C; buf[k-1] must be the block's leading 55
        if k == 0 or buf[k - 1] != 0x55:
            raise TapeError("sync byte without leading $55", k)
        if k + 3 > n:
            raise TapeError("truncated block header", k)
        t, ln = buf[k + 1], buf[k + 2]
        if k + 3 + ln + 2 > n:
            raise TapeError("truncated block", k)
        payload = buf[k + 3:k + 3 + ln]
        ck, tr = buf[k + 3 + ln], buf[k + 3 + ln + 1]
        if ck != (t + ln + sum(payload)) & 0xFF:
            raise TapeError("bad checksum (stored %02X, computed %02X)" % (ck, (t + ln + sum(payload)) & 0xFF), k + 3 + ln)
        if tr != 0x55:
            raise TapeError("missing trailing $55", k + 3 + ln + 1)
        return t, payload, k + 3 + ln + 2

    while True:
        start = i
        k = skip_filler(i)
        if k >= n:
            return files
        if buf[k] != 0x3C:
            raise TapeError("stray byte %02X between files" % buf[k], k)
        if require_leaders and buf[i:k].count(0x55) < 2:
            raise TapeError("name-file block without leader", k)
        t, p, i = block(k)
        if t != 0x00:
            raise TapeError("expected name-file block, got type %02X" % t, k)
        if len(p) != 15:
            raise TapeError("name-file block with %d payload bytes" % len(p), k)
        f = dict(name=bytes(p[0:8]), ftype=p[8], dtype=p[9], gap=p[10], load=p[11] << 8 | p[12], exec=p[13] << 8 | p[14],
                 start=start)
        data = bytearray()
        blocks = []
        first = True
        while True:
            k = skip_filler(i)
            if k >= n:
                raise TapeError("missing end-of-file block", n)
            if buf[k] != 0x3C:
                raise TapeError("stray byte %02X between blocks" % buf[k], k)
            if require_leaders and not blocks and not data and first and buf[i:k].count(0x55) < 2:
                raise TapeError("first block after the name-file block without leader", k)
            first = False
            t, p, i = block(k)
            if t == 0x01:
                if len(p) == 0:
                    raise TapeError("data block of length 0", k)
                data += p
                blocks.append(len(p))
            elif t == 0xFF:
                if len(p) != 0:
                    raise TapeError("end-of-file block with payload", k)
                break
            else:
                raise TapeError("unknown block type %02X" % t, k)
        f["data"] = bytes(data)
        f["blocks"] = blocks
        f["end"] = i
        files.append(f)


def mk_block(t, payload):
    payload = bytes(payload)
    return bytes([0x55, 0x3C, t, len(payload)]) + payload + bytes([(t + len(payload) + sum(payload)) & 0xFF, 0x55])


def generate(files, rnd, style=None):
    """Foreign but well-formed tape: arbitrary leader lengths >=1, blank runs, optional gaps between data blocks,
    data blocks of any size 1..255.  files: list of dict(name(bytes8), ftype, dtype, load, exec, data)."""
    out = bytearray()
    for f in files:
        gaps = rnd.random() < 0.4
        blank = rnd.choice([0, 0, 1, 5, 128, 300, 700])
        out += bytes(blank) + b"\x55" * rnd.choice([1, 2, 7, 128, 255, 300, 511, 600, 1500])
        hdr = bytes(f["name"]) + bytes([f["ftype"], f["dtype"], 0xFF if gaps else 0x00, f["load"] >> 8, f["load"] & 255,
                                        f["exec"] >> 8, f["exec"] & 255])
        out += mk_block(0x00, hdr)
        out += bytes(rnd.choice([0, 0, 3, 128])) + b"\x55" * rnd.choice([1, 2, 128, 200])
        data = bytes(f["data"])
        pos = 0
        mode = rnd.choice(["255", "small", "mixed", "one"])
        while pos < len(data):
            if mode == "255":
                k = 255
            elif mode == "small":
                k = rnd.randrange(1, 40)
            elif mode == "one":
                k = 1 if len(data) < 600 else 255
            else:
                k = rnd.choice([1, 2, 100, 254, 255, 128])
            chunk = data[pos:pos + k]
            pos += len(chunk)
            out += mk_block(0x01, chunk)
            if gaps and pos < len(data):
                out += bytes(rnd.choice([0, 1, 60])) + b"\x55" * rnd.choice([0, 1, 30])
        out += bytes(rnd.choice([0, 0, 2])) + b"\x55" * rnd.choice([0, 0, 1, 9])
        out += mk_block(0xFF, b"")
    out += bytes(rnd.choice([0, 0, 10])) + b"\x55" * rnd.choice([0, 0, 4])
    return bytes(out)


def selftest():
    import random
    r = random.Random(5)
    n = 0
    for _ in range(300):
        files = []
        for k in range(r.randrange(0, 4)):
            ln = r.choice([0, 1, 254, 255, 256, 510, 511, 700, 3])
            data = bytes(r.choice([0x55, 0x3C, 0x00, 0x01, 0xFF, r.randrange(256)]) for _ in range(ln))
            files.append(dict(name=bytes(r.choice(b"ABCU< 5") for _ in range(8)), ftype=r.randrange(4), dtype=r.choice([0, 255]),
                              load=r.randrange(65536), exec=r.randrange(65536), data=data))
        t = generate(files, r)
        got = parse(t)
        assert len(got) == len(files), (len(got), len(files))
        for a, b in zip(got, files):
            for key in ("name", "ftype", "dtype", "load", "exec", "data"):
                assert a[key] == b[key], key
        n += 1
    good = b"\x55" * 4 + mk_block(0, b"ABCDEFGH\x02\x00\x00\x10\x00\x10\x00") + b"\x55" + mk_block(1, b"xyz") + mk_block(0xFF, b"")
    assert len(parse(good)) == 1
    # one negative test per clause
    bad = bytearray(good); bad[4 + 4 + 3] ^= 1
    for mut, why in ((bad, "checksum"), (good[:-1] + b"\x54", "trailer"), (good.replace(b"\x55\x3C\x01\x03", b"\x55\x3C\x01\x04"), "length"),
                     (good[:30] + b"\x07" + good[30:], "stray"), (good[:-6], "no eof"), (b"\x00" * 3 + good[4:], "no leader"),
                     (good.replace(b"\x55\x3C\x01", b"\x55\x3C\x02"), "type")):
        try:
            parse(bytes(mut))
        except TapeError:
            continue
        raise AssertionError("strict tape parser accepted a stream broken in: " + why)
    return n


if __name__ == "__main__":
    print("tape selftest ok", selftest())
