"""
M11 reach monitor: which statements of the repository the workload of a check actually executed.

A second sys.monitoring tool (COVERAGE_ID; M3's step counter keeps PROFILER_ID) gets one LINE event per
statement-start line of every repository code object and then disables that location, so the cost is one callback
per distinct line per worker.  The workers report the set, the driver merges it and compares it with the lines that
CAN produce an event (co_lines() of every code object obtained by compiling the file), per function.

This does not decide anything by itself: it is the observation that backs "the monitors watched executions that went
through the anchored mechanism" in the evidence, it feeds per-property gates (a function named in ANCHOR_FUNCS that
no execution entered makes the run inconclusive), and tools/reach.py prints what no check ever reaches.
"""
import os
import sys

_seen = set()
_on = [False]
_prefix = [None]


def _line(code, line):
    fn = code.co_filename
    if fn.startswith(_prefix[0]):
        _seen.add((fn, line))
    return sys.monitoring.DISABLE


def start(repo):
    if _on[0]:
        return
    _prefix[0] = os.path.join(repo, "")
    mon = sys.monitoring
    try:
        mon.use_tool_id(mon.COVERAGE_ID, "verif-reach")
    except ValueError:
        return
    mon.register_callback(mon.COVERAGE_ID, mon.events.LINE, _line)
    mon.set_events(mon.COVERAGE_ID, mon.events.LINE)
    _on[0] = True


def dump():
    out = {}
    n = len(_prefix[0] or "")
    for fn, line in _seen:
        out.setdefault(fn[n:], []).append(line)
    return {k: sorted(v) for k, v in out.items()}


# ------------------------------------------------------------------ static side: lines that can fire, per function

def _walk(code, qual, acc):
    lines = set()
    for _, _, ln in code.co_lines():
        if ln is not None and ln > 0:
            lines.add(ln)
    if qual != "<module>" and len(lines) > 1:
        lines.discard(code.co_firstlineno)      # the RESUME of a function carries the def line but fires no LINE event
    acc.append((qual, code.co_firstlineno, lines))
    for c in code.co_consts:
        if hasattr(c, "co_lines"):
            _walk(c, c.co_qualname, acc)


def executable(repo, rel):
    """[(qualname, firstline, set(lines))] for every code object of a repository file."""
    path = os.path.join(repo, rel)
    src = open(path, encoding="utf-8", errors="replace").read()
    acc = []
    _walk(compile(src, path, "exec"), "<module>", acc)
    return acc


def repo_files(repo):
    out = []
    for base in ("cocoasm", "cocoasm/virtualfiles"):
        d = os.path.join(repo, base)
        if os.path.isdir(d):
            for fn in sorted(os.listdir(d)):
                if fn.endswith(".py"):
                    out.append(base + "/" + fn)
    for fn in ("assembler.py", "file_util.py"):
        if os.path.exists(os.path.join(repo, fn)):
            out.append(fn)
    return out


def summarize(repo, reached):
    """reached: {rel: [lines]} -> (per-file summary, {rel: {qualname: [reached, total]}}, unreached functions)."""
    files = {}
    funcs = {}
    unreached = []
    tot_r = tot_e = 0
    for rel in repo_files(repo):
        got = set(reached.get(rel, ()))
        r = e = 0
        per = {}
        for qual, first, lines in executable(repo, rel):
            # the def line itself belongs to the enclosing code object; a function counts as entered when one of
            # its own lines fired
            hit = len(lines & got)
            per_key = "%s@%d" % (qual, first)
            per[per_key] = [hit, len(lines)]
            r += hit
            e += len(lines)
            if hit == 0 and qual != "<module>" and lines:
                unreached.append("%s:%s" % (rel, per_key))
        files[rel] = "%d/%d" % (r, e)
        funcs[rel] = per
        tot_r += r
        tot_e += e
    return {"lines_reached": tot_r, "lines_executable": tot_e, "by_file": files}, funcs, unreached


def entered(funcs, rel, qualname):
    """True if any code object of that qualified name in that file had one of its lines executed."""
    for k, (hit, _) in funcs.get(rel, {}).items():
        if k.split("@")[0] == qualname and hit:
            return True
    return False


# ------------------------------------------------------------------ the mechanism each property is anchored in
# (file, qualified name).  A function listed here that still exists in the tree but was entered by no execution of a
# run makes that run INCONCLUSIVE; one that no longer exists (renamed, inlined) is ignored - a refactoring is not a
# reason to stop deciding.
_ST, _OP, _PR, _VA = "cocoasm/statement.py", "cocoasm/operands.py", "cocoasm/program.py", "cocoasm/values.py"
_CAS, _DSK, _VF = "cocoasm/virtualfiles/cassette.py", "cocoasm/virtualfiles/disk.py", "cocoasm/virtualfiles/virtual_file.py"
_SRC = "cocoasm/virtualfiles/source_file.py"
ANCHOR_FUNCS = {
    "C01": [(_ST, "Statement.translate"), (_ST, "Statement.fit_operand_to_reserved_size"), (_OP, "IndexedOperand.translate"),
            (_OP, "ExtendedIndexedOperand.translate"), (_OP, "ImmediateOperand.translate"), (_OP, "DirectOperand.translate"),
            (_OP, "ExtendedOperand.translate"), (_OP, "SpecialOperand.translate"), (_OP, "InherentOperand.translate"),
            (_PR, "Program.get_binary_array")],
    "C02": [(_PR, "Program.translate_statements"), (_PR, "Program.save_symbol"), (_ST, "Statement.set_address"),
            (_ST, "Statement.fix_addresses"), (_PR, "Program.get_symbol_table"), (_PR, "Program.get_statements")],
    "C03": [(_ST, "Statement.determine_pcr_relative_sizes"), (_ST, "Statement.fix_addresses"), (_OP, "RelativeOperand.translate"),
            (_OP, "IndexedOperand.translate"), (_OP, "ExtendedIndexedOperand.translate"), (_PR, "Program.all_sizes_fixed")],
    "C04": [(_VA, "ExpressionValue.calculate"), (_VA, "ExpressionValue.resolve"), (_VA, "ExpressionValue.calculate_address_offset"),
            (_PR, "Program.constant_value"), (_PR, "Program.resolve_defined_symbols"), (_PR, "Program.resolve_directive_operands")],
    "C05": [(_OP, "PseudoOperand.translate"), (_OP, "PseudoOperand.resolve_symbols"), (_VA, "MultiByteValue.render"),
            (_VA, "MultiByteValue.resolve_addresses"), (_VA, "StringValue.__init__"), (_VA, "NumericValue.hex_in_bytes")],
    "C06": [(_CAS, "CassetteFile.add_file"), (_CAS, "CassetteFile.read_file"), (_CAS, "CassetteFile.read_blocks"),
            (_CAS, "CassetteFile.append_data_blocks"), (_CAS, "CassetteFile.append_header"), (_CAS, "CassetteFile.skip_to_sequence")],
    "C07": [(_DSK, "DiskFile.add_file"), (_DSK, "DiskFile.list_files"), (_DSK, "DiskFile.read_granule_chain"),
            (_DSK, "DiskFile.write_to_granules"), (_DSK, "DiskFile.write_dir_entry"), (_DSK, "DiskFile.calculate_file_length")],
    "C08": [(_DSK, "DiskFile.add_file"), (_DSK, "DiskFile.write_to_fat"), (_DSK, "DiskFile.write_to_granules"),
            (_DSK, "DiskFile.write_dir_entry"), (_DSK, "DiskFile.find_empty_granule")],
    "C09": [(_DSK, "DiskFile.add_file"), (_CAS, "CassetteFile.add_file"), (_VF, "VirtualFile.save_virtual_file"),
            (_VF, "VirtualFile.open_virtual_file"), (_VF, "VirtualFile.get_coco_files")],
    "C10": [(_VF, "VirtualFile.save_virtual_file"), (_VF, "VirtualFile.open_virtual_file"), (_VF, "VirtualFile.get_coco_files"),
            (_SRC, "SourceFile.write_file")],
    "C11": [(_PR, "Program.get_binary_array"), (_VF, "VirtualFile.save_virtual_file"), (_VF, "VirtualFile.add_coco_file"),
            (_CAS, "CassetteFile.add_file"), (_DSK, "DiskFile.add_file")],
    "C12": [(_ST, "Statement.fit_operand_to_reserved_size"), (_OP, "Operand.create_from_str"), (_ST, "Statement.translate"),
            (_OP, "IndexedOperand.translate"), (_OP, "SpecialOperand.translate")],
    "C13": [(_PR, "Program.process"), (_PR, "Program.process_mnemonics"), (_ST, "Statement.parse_line"),
            (_PR, "Program.all_sizes_fixed"), (_ST, "Statement.determine_pcr_relative_sizes")],
    "C14": [(_CAS, "CassetteFile.add_file"), (_CAS, "CassetteFile.append_header"), (_CAS, "CassetteFile.append_data_blocks"),
            (_CAS, "CassetteFile.append_eof"), (_CAS, "CassetteFile.append_leader"), (_CAS, "CassetteFile.append_name")],
    "C15": [(_DSK, "DiskFile.add_file"), (_DSK, "DiskFile.find_empty_granule"), (_DSK, "DiskFile.find_empty_directory_entry"),
            (_DSK, "DiskFile.calculate_granules_needed"), (_DSK, "DiskFile.granule_in_use"), (_DSK, "DiskFile.directory_entry_in_use")],
    "C16": [(_VF, "VirtualFile.list_files"), (_VF, "VirtualFile.save_virtual_file"), (_VF, "VirtualFile.get_coco_files"),
            (_DSK, "DiskFile.list_files"), (_CAS, "CassetteFile.read_file")],
    "C17": [(_PR, "Program.process"), (_PR, "Program.translate_statements"), (_ST, "Statement.parse_line")],
    "C18": [(_PR, "Program.translate_statements"), (_ST, "Statement.fix_addresses"), (_ST, "Statement.parse_line"),
            (_PR, "Program.save_symbol")],
    "C19": [(_PR, "Program.process_mnemonics"), (_ST, "Statement.get_include_filename"), (_SRC, "SourceFile.read_file"),
            (_PR, "Program.parse")],
}


def exists(funcs, rel, qualname):
    return any(k.split("@")[0] == qualname for k in funcs.get(rel, {}))
