"""
M11 reach monitor: which statements of the repository the workload of a check actually executed.

A second sys.monitoring tool (COVERAGE_ID; M3's step counter keeps PROFILER_ID) gets one LINE event per
statement-start line of every repository code object and then disables that location, so the cost is one callback
per distinct line per worker.  The workers report the set, the driver merges it and compares it with the lines that
CAN produce an event (co_lines() of every code object obtained by compiling the file), per function.

This does not decide anything by itself: it is the observation that backs "the monitors watched executions that went
through the anchored mechanism" in the evidence, it feeds per-property gates (a function named in ANCHOR_FUNCS that
no execution entered makes the run inconclusive), and tools/reach.py prints what no check ever reaches.
"""
import os
import sys

_seen = set()
_on = [False]
_prefix = [None]


def _line(code, line):
    fn = code.co_filename
    if fn.startswith(_prefix[0]):
        _seen.add((fn, line))
    return sys.monitoring.DISABLE


def start(repo):
    if _on[0]:
        return
    _prefix[0] = os.path.join(repo, "")
    mon = sys.monitoring
    try:
        mon.use_tool_id(mon.COVERAGE_ID, "verif-reach")
    except ValueError:
        return
    mon.register_callback(mon.COVERAGE_ID, mon.events.LINE, _line)
    mon.set_events(mon.COVERAGE_ID, mon.events.LINE)
    _on[0] = True


def dump():
    out = {}
    n = len(_prefix[0] or "")
    for fn, line in _seen:
        out.setdefault(fn[n:], []).append(line)
    return {k: sorted(v) for k, v in out.items()}


# ------------------------------------------------------------------ static side: lines that can fire, per function

def _walk(code, qual, acc):
    lines = set()
    for _, _, ln in code.co_lines():
        if ln is not None and ln > 0:
            lines.add(ln)
    if qual != "<module>" and len(lines) > 1:
        lines.discard(code.co_firstlineno)      # the RESUME of a function carries the def line but fires no LINE event
    acc.append((qual, code.co_firstlineno, lines))
    for c in code.co_consts:
        if hasattr(c, "co_lines"):
            _walk(c, c.co_qualname, acc)


def executable(repo, rel):
    """[(qualname, firstline, set(lines))] for every code object of a repository file."""
    path = os.path.join(repo, rel)
    src = open(path, encoding="utf-8", errors="replace").read()
    acc = []
    _walk(compile(src, path, "exec"), "<module>", acc)
    return acc


def repo_files(repo):
    out = []
    for base in ("cocoasm", "cocoasm/virtualfiles"):
        d = os.path.join(repo, base)
        if os.path.isdir(d):
            for fn in sorted(os.listdir(d)):
                if fn.endswith(".py"):
                    out.append(base + "/" + fn)
    for fn in ("assembler.py", "file_util.py"):
        if os.path.exists(os.path.join(repo, fn)):
            out.append(fn)
    return out


def summarize(repo, reached):
    """reached: {rel: [lines]} -> (per-file summary, {rel: {qualname: [reached, total]}}, unreached functions)."""
    files = {}
    funcs = {}
    unreached = []
    tot_r = tot_e = 0
    for rel in repo_files(repo):
        got = set(reached.get(rel, ()))
        r = e = 0
        per = {}
        for qual, first, lines in executable(repo, rel):
            # the def line itself belongs to the enclosing code object; a function counts as entered when one of
            # its own lines fired
            hit = len(lines & got)
            per_key = "%s@%d" % (qual, first)
            per[per_key] = [hit, len(lines)]
            r += hit
            e += len(lines)
            if hit == 0 and qual != "<module>" and lines:
                unreached.append("%s:%s" % (rel, per_key))
        files[rel] = "%d/%d" % (r, e)
        funcs[rel] = per
        tot_r += r
        tot_e += e
    return {"lines_reached": tot_r, "lines_executable": tot_e, "by_file": files}, funcs, unreached


def entered(funcs, rel, qualname):
    """True if any code object of that qualified name in that file had one of its lines executed."""
    for k, (hit, _) in funcs.get(rel, {}).items():
        if k.split("@")[0] == qualname and hit:
            return True
    return False
