#!/bin/bash
# Offline setup. Nothing is downloaded or installed: the harness is pure Python on /venv/bin/python (the interpreter that has the
# repository's own dependencies). What setup does is validate the trusted base: the reference models' self-tests
# (R1 decode/encode fixed point + illegal opcodes, R4 generator->parser round trips + one negative test per framing clause,
#  R5 writer->fsck round trips + one negative test per C08 clause).
cd "$(dirname "$0")"
export PYTHONPATH="$PWD" PYTHONDONTWRITEBYTECODE=1
/venv/bin/python - <<'PY'
from vlib.ref import mc6809, tape, dskfs
print("R1 mc6809 self-test: %d instructions round-tripped" % mc6809.selftest())
print("R4 tape   self-test: %d tapes round-tripped, negative tests ok" % tape.selftest())
print("R5 dskfs  self-test: %d images round-tripped, negative tests ok" % dskfs.selftest())
PY
