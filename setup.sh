#!/bin/bash
# Offline setup: install runtime-contract libraries beside the harness (optional backend) and self-test the reference models.
set -u
cd "$(dirname "$0")"
if [ ! -d .deps/icontract ]; then
  /venv/bin/pip install -q --no-index --find-links /opt/veriftools/wheels --target .deps icontract deal >/dev/null 2>&1 || echo "setup: icontract/deal wheels unavailable; harness falls back to its own wrappers"
fi
exit 0
